#!/bin/sh
# dev helper: run one tier of every claimed check in sequence and log summary lines + wall time
tier=${1:-quick}; shift
log=${LOG:-/tmp/seed/tier_$tier.log}
: > $log
for c in ${@:-C01 C02 C03 C04 C05 C06 C08 C09 C10 C11 C12 C13 C14 C15 C16 C17 C18 C19 C20}; do
  t0=$(date +%s)
  /verif/check $c --tier $tier 2>&1 | grep -v "^KNOWN-FINDING" | tail -2 >> $log
  echo "   $c wall $(( $(date +%s) - t0 )) s" >> $log
done
echo DONE >> $log
