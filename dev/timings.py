"""dev helper: rewrite the timing table in DESIGN.md (between the TIMINGS markers) from tier logs:
   dev/timings.py <quick.log> <thorough.log> [<thorough2.log> ...]   (later logs override earlier ones)"""
import re, sys
rows = {}
def parse(path, tier):
    for line in open(path):
        m = re.match(r'\[(C\d\d)\] tier=(\w+) jobs=(\d+) obligations=(\d+) discharged=(\d+) inconclusive=(\d+) violations=(\d+) known=(\d+) errors=(\d+) wall=([\d.]+)s exit=(\d)', line)
        if m:
            rows.setdefault(m.group(1), {})[m.group(2)] = m.groups()
parse(sys.argv[1], 'quick')
for p in sys.argv[2:]:
    parse(p, 'thorough')
out = ['| check | quick: jobs / obligations / discharged / inconclusive / known / wall | thorough: jobs / obligations / discharged / inconclusive / known / wall |', '|---|---|---|']
for c in sorted(rows):
    def fmt(t):
        g = rows[c].get(t)
        if not g:
            return 'not run'
        return f"{g[2]} / {g[3]} / {g[4]} / {g[5]} / {g[7]} / {float(g[9]):.0f} s (exit {g[10]})"
    out.append(f"| {c} | {fmt('quick')} | {fmt('thorough')} |")
s = open('/verif/DESIGN.md').read()
a, b = s.index('<!-- TIMINGS -->'), s.index('<!-- /TIMINGS -->')
s = s[:a] + '<!-- TIMINGS -->\n' + '\n'.join(out) + '\n' + s[b:]
open('/verif/DESIGN.md', 'w').write(s)
print('\n'.join(out))
