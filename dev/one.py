import sys, json, importlib
sys.path.insert(0,'/verif')
mod = importlib.import_module('props.'+sys.argv[1])
job = json.loads(sys.argv[2])
r = mod.run(job, sys.argv[3] if len(sys.argv)>3 else 'quick')
for k,v in r.items():
    if k in ('encoded','cex'): continue
    print(k, ':', json.dumps(v, default=str)[:1200])
seen=set()
for c in r.get('cex', []):
    if c.get('key') in seen: continue
    seen.add(c.get('key'))
    print('CEX', c.get('key'), 'reproduced=', c.get('reproduced'), '::', c.get('detail')[:900])
    if '-v' in sys.argv: print('   inputs', json.dumps(c.get('inputs'))[:1500])
