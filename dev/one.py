import sys, json, importlib
sys.path.insert(0,'/verif')
mod = importlib.import_module('props.'+sys.argv[1])
job = json.loads(sys.argv[2])
r = mod.run(job, sys.argv[3] if len(sys.argv)>3 else 'quick')
for k,v in r.items():
    if k in ('encoded',): continue
    print(k, ':', json.dumps(v, default=str)[:1500])
