"""completes /verif/seeded/*/meta.json: which property the change breaks, what it needs to manifest (from the
sub-agent's notes), and what was run against it"""
import json, os, re
root = '/verif/seeded'
for d in sorted(os.listdir(root)):
    mp = f'{root}/{d}/meta.json'
    if not os.path.exists(mp):
        continue
    meta = json.load(open(mp))
    notes = open(f'{root}/{d}/notes.md').read() if os.path.exists(f'{root}/{d}/notes.md') else ''
    paras = [p.strip() for p in re.split(r'\n(?=\s*[-*]\s|\*\*|\n)', notes) if p.strip()]

    def pick(*keys):
        for p in paras:
            head = p[:60].lower()
            if any(k in head for k in keys):
                return re.sub(r'\s+', ' ', p.lstrip('-* '))[:900]
        return None
    meta['breaks_property'] = meta.get('property')
    meta['change'] = pick('change')
    meta['why_it_breaks'] = pick('why it breaks', 'breaks')
    meta['needs_to_manifest'] = pick('trigger', 'needs', 'needed')
    meta['written_by'] = 'fresh sub-agent given only the property text and a scratch worktree of /repo (nothing from /verif)'
    meta['what_was_run'] = [
        'pinned test suite in a scratch worktree with the patch applied: no stable test may fail (stable_tests_failing_with_patch)',
        "the sub-agent's demo.py with and without the patch (demo_exit_with_patch / demo_exit_without_patch)",
        'git -C /repo apply patch.diff; /verif/check <property> --tier quick (exit code and report lines under "checks"); git -C /repo checkout -- .',
    ]
    json.dump(meta, open(mp, 'w'), indent=1)
    print(d, 'caught_by', meta.get('caught_by'), '| needs:', (meta['needs_to_manifest'] or '')[:80])
