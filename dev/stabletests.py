"""run the pinned suite in a worktree and list stable tests that fail:  dev/stabletests.py <worktree>"""
import json, subprocess, sys
import xml.etree.ElementTree as ET
wt = sys.argv[1]
STABLE = json.load(open('/root/.vp/BASELINE.json'))['stable_pass']
xml = f'/tmp/stable_{abs(hash(wt))}.xml'
r = subprocess.run(f"cd {wt} && PYTHONPATH={wt}/src /venv/bin/python -m pytest -q -p no:cacheprovider --timeout=900 --continue-on-collection-errors --junitxml={xml} tests 2>&1 | tail -2",
                   shell=True, capture_output=True, text=True)
bad, seen = set(), set()
for tc in ET.parse(xml).getroot().iter('testcase'):
    name = tc.get('classname') + '::' + tc.get('name')
    seen.add(name)
    if any(ch.tag in ('failure', 'error') for ch in tc):
        bad.add(name)
fail = sorted(t for t in STABLE if t in bad or t not in seen)
print(r.stdout.strip()[-160:])
print('stable:', len(STABLE), 'failing:', fail)
