"""dev helper: run each job in its own process with a wall timeout, print slow/failed ones"""
import sys, time, importlib, multiprocessing as mp, json
sys.path.insert(0, '/verif')
def work(args):
    name, job, tier = args
    mod = importlib.import_module('props.' + name)
    t = time.time()
    try:
        r = mod.run(job, tier)
        return job, r['status'], r['obligations'], r['discharged'], r['inconclusive'], r['paths'], round(time.time()-t,1), [(c.get('key'), c.get('reproduced')) for c in r['cex'][:1]]
    except BaseException as e:
        return job, 'ERROR', repr(e)[:300], round(time.time()-t,1)
if __name__ == '__main__':
    name = sys.argv[1].lower(); ob = sys.argv[2]; tier = sys.argv[3]; tmo = float(sys.argv[4])
    mod = importlib.import_module('props.' + name)
    jobs = [j for j in mod.jobs(tier) if ob == 'all' or j['ob'] == ob]
    ctx = mp.get_context('fork')
    pool = ctx.Pool(16, maxtasksperchild=1)
    rs = [(j, pool.apply_async(work, ((name, j, tier),))) for j in jobs]
    t0 = time.time()
    for j, r in rs:
        try:
            print(r.get(timeout=max(1, tmo - (time.time() - t0))), flush=True)
        except mp.TimeoutError:
            print(j, 'TIMEOUT', flush=True)
    pool.terminate()
