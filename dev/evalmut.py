"""Evaluate sub-agent mutants: confirm (tests still pass, demo fails with / passes without), run our quick checks on the
mutated /repo, always revert, and file the result under /verif/seeded/<id>/.   usage: evalmut.py C02 [C06 ...] [--tier quick]"""
import json, os, shutil, subprocess, sys, time
STABLE = set(json.load(open('/root/.vp/BASELINE.json'))['stable_pass'])
ids = [a for a in sys.argv[1:] if not a.startswith('--')]
tier = 'thorough' if '--thorough' in sys.argv else 'quick'
extra_checks = {}   # mutant -> additional property checks to run
for a in sys.argv[1:]:
    if a.startswith('--also='):
        k, v = a[7:].split(':'); extra_checks[k] = v.split(',')

def sh(cmd, **kw):
    return subprocess.run(cmd, shell=True, capture_output=True, text=True, **kw)

def run_tests(wt):
    """returns the set of stable tests that FAIL in worktree wt"""
    xml = '/tmp/seed/junit.xml'
    r = sh(f"cd {wt} && PYTHONPATH={wt}/src /venv/bin/python -m pytest -q -p no:cacheprovider --timeout=900 --continue-on-collection-errors --junitxml={xml} tests 2>&1 | tail -3")
    import xml.etree.ElementTree as ET
    bad, seen = set(), set()
    for tc in ET.parse(xml).getroot().iter('testcase'):
        name = tc.get('classname') + '::' + tc.get('name')
        seen.add(name)
        if any(ch.tag in ('failure', 'error') for ch in tc):
            bad.add(name)
    return {t for t in STABLE if t in bad or t not in seen}, r.stdout.strip()[-200:]

only = None
for a in sys.argv[1:]:
    if a.startswith('--only='):
        only = a[7:].split(',')
for pid in ids:
    for m in sorted(os.listdir(f'/tmp/seed/out_{pid}')):
        if only and m not in only:
            continue
        src = f'/tmp/seed/out_{pid}/{m}'
        if not os.path.isfile(f'{src}/patch.diff'):
            continue
        tag = f'{pid}_{m}'
        wt = '/tmp/seed/clean'      # clean worktree kept at /repo's HEAD
        sh(f"git -C {wt} checkout -q --detach $(git -C /repo rev-parse HEAD)")
        meta = {'id': tag, 'property': pid, 'tier_run': tier}
        t0 = time.time()
        # 1. tests in the scratch worktree with the patch
        sh(f'git -C {wt} checkout -- .')
        ap = sh(f'git -C {wt} apply {src}/patch.diff')
        meta['applies'] = ap.returncode == 0
        if ap.returncode != 0:
            print(tag, 'PATCH DOES NOT APPLY', ap.stderr[:200]); continue
        failed, tail = run_tests(wt)
        meta['stable_tests_failing_with_patch'] = sorted(failed)
        d1 = sh(f'PYOMA2_SRC={wt}/src PYTHONPATH={wt}/src /venv/bin/python {src}/demo.py', cwd='/tmp/seed')
        meta['demo_exit_with_patch'] = d1.returncode
        sh(f'git -C {wt} checkout -- .')
        d0 = sh(f'PYOMA2_SRC={wt}/src PYTHONPATH={wt}/src /venv/bin/python {src}/demo.py', cwd='/tmp/seed')
        meta['demo_exit_without_patch'] = d0.returncode
        meta['confirmed'] = (not failed) and d1.returncode != 0 and d0.returncode == 0
        # 2. our checks on the mutated /repo
        # target tree for the checks: /repo itself, or (EVAL_WT) a scratch worktree at /repo's HEAD when /repo is busy
        tgt = os.environ.get('EVAL_WT', '/repo')
        if tgt != '/repo':
            sh(f"git -C {tgt} checkout -q --detach $(git -C /repo rev-parse HEAD)")
        assert sh(f'git -C {tgt} status --short').stdout.strip() == '', f'{tgt} not clean'
        results = {}
        try:
            ap = sh(f'git -C {tgt} apply {src}/patch.diff')
            assert ap.returncode == 0, ap.stderr
            for chk in [pid] + extra_checks.get(tag, []):
                if tgt == '/repo':
                    r = sh(f'/verif/check {chk} --tier {tier}')
                else:
                    r = sh(f'cd /verif && VERIF_OUT=/tmp/seed/evalout PYTHONPATH=/verif:{tgt}/src PYTHONDONTWRITEBYTECODE=1 TQDM_DISABLE=1 MPLBACKEND=Agg '
                           f'OMP_NUM_THREADS=1 OPENBLAS_NUM_THREADS=1 /verif/.venv/bin/python -m symx.cli {chk} --tier {tier}')
                lines = [l for l in r.stdout.splitlines() if l.startswith(('VIOLATION', 'KNOWN-FINDING', 'HARNESS-ERROR', '[' + chk))]
                results[chk] = {'exit': r.returncode, 'lines': [l[:400] for l in lines[:8]]}
        finally:
            sh(f'git -C {tgt} checkout -- .')
        meta['checks'] = results
        meta['caught_by'] = [k for k, v in results.items() if v['exit'] == 1]
        meta['wall_s'] = round(time.time() - t0, 1)
        out = f'/verif/seeded/{tag}'
        os.makedirs(out, exist_ok=True)
        for f in ('patch.diff', 'demo.py', 'notes.md'):
            if os.path.exists(f'{src}/{f}'):
                shutil.copy(f'{src}/{f}', f'{out}/{f}')
        old = {}
        if os.path.exists(f'{out}/meta.json'):
            old = json.load(open(f'{out}/meta.json'))
        old.update(meta)
        json.dump(old, open(f'{out}/meta.json', 'w'), indent=1)
        print(tag, 'confirmed' if meta['confirmed'] else 'NOT-CONFIRMED', 'caught_by', meta['caught_by'], {k: v['exit'] for k, v in results.items()}, f"{meta['wall_s']}s", flush=True)
        # leave evidence of the unchanged tree in place: re-run is done by the caller at the end
