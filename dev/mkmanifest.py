"""regenerates MANIFEST.json from the table below (kept valid at all times)"""
import json, os, sys
sys.path.insert(0, '/verif')
BASE = "cd /repo && /venv/bin/python -m pytest -ra -q -p no:cacheprovider --timeout=900 --continue-on-collection-errors"
CLAIMS = {}
NA = {}
exec(open('/verif/dev/claims.py').read())
props = [json.loads(l) for l in open('/verif/properties.jsonl')]
checks, na = [], []
for p in props:
    pid = p['id']
    if pid in CLAIMS and os.path.exists(f'/verif/props/{pid.lower()}.py'):
        c = CLAIMS[pid]
        checks.append({
            "property_id": pid,
            "quick_cmd": f"./check {pid} --tier quick",
            "thorough_cmd": f"./check {pid} --tier thorough",
            "evidence_file": f"/verif/evidence/{pid}.json",
            "replay_cmd_template": f"./check {pid} --replay {{path}}",
            "engine": "symx",
            "level_claimed": {"category": "other", "text": c['text'], "design_ref": f"DESIGN.md §3/{pid}"},
            "level_note": c['note'],
            "technique": c.get('technique', "bounded symbolic execution of the real Python code objects (symx) with z3 deciding every obligation; counterexamples replayed on the unmodified code"),
        })
    else:
        na.append({"property_id": pid, "reason": NA.get(pid, "check not built yet in this session (see DESIGN.md §3 for the plan)")})
m = {
    "version": 1,
    "setup_cmd": "./setup.sh",
    "hooks": {"guard": "PYOMA2_VERIF", "enable": "not used: twins rebind module globals from outside, no instrumentation in /repo",
              "baseline_off_cmd": BASE, "source_commits": [], "add_only": True},
    "engines": [{"name": "symx", "path": "/verif/symx", "serves_properties": [c['property_id'] for c in checks],
                 "kind_free_text": "symbolic execution of real pyOMA2 code objects over z3 reals/NaN flags through a NumPy ndarray-subclass shim; per-path SMT obligations; replay on real code"}],
    "checks": checks,
    "not_applicable": na,
    "notes": "Exit codes: 0 held / known findings only; 1 VIOLATION (replayed on the real code); 3 harness error (shim gap, non-reproducing model, vacuous harness). See DESIGN.md.",
}
json.dump(m, open('/verif/MANIFEST.json', 'w'), indent=1)
print(len(checks), 'claimed;', len(na), 'not applicable')
