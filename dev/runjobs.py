"""dev helper: run jobs of one property sequentially and print per-job result lines"""
import sys, time, importlib
sys.path.insert(0, '/verif')
mod = importlib.import_module('props.' + sys.argv[1].lower())
tier = sys.argv[3] if len(sys.argv) > 3 else 'quick'
for job in mod.jobs(tier):
    if len(sys.argv) > 2 and sys.argv[2] != 'all' and job['ob'] != sys.argv[2]:
        continue
    t = time.time()
    try:
        r = mod.run(job, tier)
    except BaseException as e:
        import traceback; traceback.print_exc()
        print(job, 'ERROR', repr(e)[:300], flush=True)
        continue
    print(job, r['status'], 'ob', r['obligations'], 'dis', r['discharged'], 'inc', r['inconclusive'], 'paths', r['paths'],
          'reach', r['reach'], round(time.time() - t, 2), [(c.get('key'), c.get('reproduced'), c['detail']) for c in r['cex'][:1]], flush=True)
