"""dev: apply a textual mutation to /repo, run a quick check, always revert.  usage: trymut.py Cnn file 'old' 'new' [--only O1]"""
import subprocess, sys
pid, f, old, new = sys.argv[1:5]
extra = sys.argv[5:]
p = '/repo/' + f
s = open(p).read()
assert s.count(old) >= 1, 'pattern not found'
open(p, 'w').write(s.replace(old, new, 1))
try:
    r = subprocess.run(['/verif/check', pid, '--tier', 'quick'] + extra, capture_output=True, text=True)
    out = r.stdout.strip().splitlines()
    print('\n'.join(l[:300] for l in out[-6:]))
    print('exit', r.returncode)
finally:
    subprocess.run(['git', '-C', '/repo', 'checkout', '--', '.'])
