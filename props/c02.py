"""C02 — PoSER merging reproduces the global mode shape from re-scaled setups."""
import itertools

import numpy as np
import z3

from symx.arr import NPProxy, SymArray, fresh
from symx.core import SC, SV, Explorer, concretize, differs, far, lift, toc
from symx.harness import Tally, to_json
from symx.twin import World

PROPERTY = "C02"
META = {
    "explanation": "Real code objects of gen.merge_mode_shapes, gen.MSF, gen.flatten_sns_names and "
                   "MultiSetup_PoSER.merge_results are executed on symbolic complex global shapes, symbolic real "
                   "non-zero per-setup/per-mode factors and every enumerated sensor layout (positions and order of "
                   "the reference channels in each setup's channel list).  Rounding guard (O3): merge_results takes no square "
                   "root of a term that is not non-negative by construction and can vanish (setups that agree exactly).",
    "bounds": {
        "quick": {"setups": "2 (all layouts), 3 (1 reference)", "references": "1..2", "roving/setup": "0..2",
                  "modes": "1..2", "entries": "complex symbolic", "factors": "real symbolic, 0.05<=|a|<=20"},
        "thorough": {"setups": "2..4", "references": "1..3", "roving/setup": "0..2", "modes": "1..2"},
    },
    "stubs": ["none for O1/O2 (np.dot, np.delete, np.concatenate, np.hstack run in NumPy on object cells)",
              "np.std lifted to sqrt(mean(|x-mean|^2)) with the sqrt as a fresh symbol s>=0, s*s=var (O3)",
              "MsPoserResult (pydantic) kept real"],
    "assumptions": ["O1: the library's reference scale-factor denominator (non-conjugated sum of squares of the "
                    "reference components) is non-zero — divisor side conditions are assumed",
                    "O3: the mean is non-zero (divisor)"],
}


def layouts(S, nref, nrovs):
    """all (reflist) = for each setup an ordered selection of nref positions among nref+nrov channels"""
    per = []
    for i in range(S):
        nch = nref + nrovs[i]
        per.append(list(itertools.permutations(range(nch), nref)))
    return itertools.product(*per)


def jobs(tier):
    out = []
    if tier == "quick":
        grid = [(2, r, rv) for r in (1, 2) for rv in itertools.product(range(3), repeat=2)]
        grid += [(3, 1, rv) for rv in [(0, 1, 2), (1, 1, 1), (2, 0, 1)]]
        modes = {2: 2, 3: 1}
    else:
        grid = [(2, r, rv) for r in (1, 2, 3) for rv in itertools.product(range(3), repeat=2)]
        grid += [(3, r, rv) for r in (1, 2) for rv in itertools.product(range(3), repeat=3)]
        grid += [(4, 1, rv) for rv in [(1, 1, 1, 1), (0, 2, 1, 2), (2, 1, 0, 1)]]
        modes = {2: 2, 3: 2, 4: 1}
    for S, r, rv in grid:
        if sum(rv) == 0 and S > 2:
            continue
        for cx in (False, True):
            out.append({"ob": "O1", "cfg": {"S": S, "nref": r, "nrov": list(rv), "modes": modes[S], "complex": cx}})
    for S, r, rv in grid:
        out.append({"ob": "O2", "cfg": {"S": S, "nref": r, "nrov": list(rv)}})
    for n in ((2, 3) if tier == "quick" else (2, 3, 4, 5)):
        for M in (1, 2):
            out.append({"ob": "O3", "cfg": {"S": n, "modes": M}})
    return out


def expected_order(reflist, nchs):
    """spec: references in the first setup's reference order (global reference sensors are identified by
    their rank in each setup's reference list), then each setup's roving channels ascending, by setup.
    Global sensor ids: ('ref', j) and ('rov', i, ch)."""
    order = [("ref", j) for j in range(len(reflist[0]))]
    for i, refs in enumerate(reflist):
        order += [("rov", i, ch) for ch in range(nchs[i]) if ch not in refs]
    return order


def run(job, tier):
    return {"O1": run_o1, "O2": run_o2, "O3": run_o3}[job["ob"]](job["cfg"], tier)


# ------------------------------------------------------------------------------------------ O1
def build_setups(cfg, reflist, G, a):
    """per-setup matrices: row ch of setup i is a[i,k] * G[sensor(i,ch), k]"""
    S, nref, nrov, M = cfg["S"], cfg["nref"], cfg["nrov"], cfg["modes"]
    ms = []
    for i in range(S):
        nch = nref + nrov[i]
        rows = []
        for ch in range(nch):
            if ch in reflist[i]:
                key = ("ref", list(reflist[i]).index(ch))
            else:
                key = ("rov", i, ch)
            rows.append([G[key][k] * a[i][k] for k in range(M)])
        ms.append(rows)
    return ms


def run_o1(cfg, tier):
    from pyoma2.functions import gen
    W = World()
    tg = W.module(gen)
    S, nref, nrov, M, cx = cfg["S"], cfg["nref"], cfg["nrov"], cfg["modes"], cfg["complex"]
    nchs = [nref + n for n in nrov]
    tally = Tally(W, ["merge_mode_shapes", "MSF"])
    ex = Explorer(timeout_ms=20000 if tier == "quick" else 120000)
    keys = [("ref", j) for j in range(nref)] + [("rov", i, ch) for i in range(S) for ch in range(nchs[i])]

    for reflist in layouts(S, nref, nrov):
        if tally.stop:
            break
        reflist = [list(r) for r in reflist]
        order = expected_order(reflist, nchs)
        state = {}

        def body():
            G = {}
            for kk in keys:
                nm = "G_" + "_".join(map(str, kk))
                G[kk] = [fresh(f"{nm}_m{k}", complex_=cx) for k in range(M)]
            a = [[fresh(f"a_{i}_{k}") for k in range(M)] for i in range(S)]
            ms = [SymArray(np.array(rows, dtype=object)) for rows in build_setups(cfg, reflist, G, a)]
            state["G"], state["a"] = G, a
            return tg.merge_mode_shapes(MSarr_list=ms, reflist=[list(r) for r in reflist])

        for e, (kind, res) in ex.run_all(body):
            G, a = state["G"], state["a"]
            rng = [z3.And(z3.Or(a[i][k].z >= z3.Q(1, 20), a[i][k].z <= -z3.Q(1, 20)), a[i][k].z <= 20, a[i][k].z >= -20)
                   for i in range(S) for k in range(M)]
            if kind == "exc":
                tally.decide(e, z3.BoolVal(True), rng, on_sat=lambda m: replay_o1_model(cfg, reflist, G, a, m, f"raised {res!r}"),
                             label=f"reflist={reflist}")
                continue
            if res.shape != (len(order), M):
                tally.decide(e, z3.BoolVal(True), rng, on_sat=lambda m: replay_o1_model(cfg, reflist, G, a, m, f"shape {res.shape}"),
                             label=f"reflist={reflist}")
                continue
            exact, robust = [], []
            for r, key in enumerate(order):
                for k in range(M):
                    want = G[key][k] * a[0][k]
                    exact.append(differs(res[r, k], want))
                    robust.append(far(res[r, k], want, 1e-3))
            box = []
            for kk in keys:
                for k in range(M):
                    c = toc(G[kk][k])
                    box += [c.re <= 10, c.re >= -10, c.im <= 10, c.im >= -10]
            tally.decide(e, z3.Or(*exact), rng + box, robust=z3.Or(*robust),
                         on_sat=lambda m: replay_o1_model(cfg, reflist, G, a, m, None), label=f"reflist={reflist}")
    return tally.result(ex)


def replay_o1_model(cfg, reflist, G, a, m, note):
    Gc = {"|".join(map(str, k)): [concretize(m, x) for x in v] for k, v in G.items()}
    ac = [[concretize(m, x) for x in row] for row in a]
    inputs = {"reflist": reflist, "G": Gc, "a": ac}
    viol, detail, key = replay_o1(cfg, inputs)
    return {"inputs": to_json(inputs), "reproduced": viol, "detail": (note + "; " if note else "") + detail, "key": key}


def replay_o1(cfg, inputs):
    from pyoma2.functions import gen
    reflist = [list(map(int, r)) for r in inputs["reflist"]]
    S, nref, nrov, M = cfg["S"], cfg["nref"], cfg["nrov"], cfg["modes"]
    nchs = [nref + n for n in nrov]
    G = {}
    for k, v in inputs["G"].items():
        p = k.split("|")
        G[(p[0],) + tuple(int(x) for x in p[1:])] = v
    a = inputs["a"]
    ms = [np.array(rows, dtype=complex if cfg.get("complex") else float) for rows in build_setups(cfg, reflist, G, a)]
    order = expected_order(reflist, nchs)
    try:
        out = gen.merge_mode_shapes(MSarr_list=ms, reflist=reflist)
    except Exception as e:  # noqa: BLE001
        return True, f"merge_mode_shapes raised {type(e).__name__}: {e}", "merge_mode_shapes:raises"
    want = np.array([[G[key][k] * a[0][k] for k in range(M)] for key in order])
    if out.shape != want.shape:
        return True, f"shape {out.shape} != {want.shape}", "merge_mode_shapes:shape"
    err = np.abs(out - want)
    if not np.all(err <= 1e-6 * (1 + np.abs(want))):
        r, k = np.unravel_index(np.nanargmax(np.where(np.isnan(err), np.inf, err)), err.shape)
        key = order[r]
        kind = "reference-rows" if key[0] == "ref" else "roving-rows"
        detail = (f"reflist={reflist} a={np.round(np.array(a, dtype=float), 4).tolist()} merged[{r},{k}]={out[r, k]:.6g} "
                  f"expected a[0,{k}]*G[{key}]={want[r, k]:.6g}")
        # classify: is the row the right sensor but on the wrong scale?
        with np.errstate(all="ignore"):
            ratio = out[r, k] / want[r, k]
        scale = None
        if key[0] == "rov" and key[1] > 0 and np.isfinite(ratio):
            i = key[1]
            if abs(ratio - (a[i][k] / a[0][k]) ** 2) < 1e-6 * abs(ratio):
                scale = "scaled-by-(a_i/a_1)^2"
        return True, detail, f"merge_mode_shapes:{kind}:{scale or 'wrong-value'}"
    return False, "merged shape equals a[0]*G in the specified order", None


# ------------------------------------------------------------------------------------------ O2
def run_o2(cfg, tier):
    """flatten_sns_names on list-of-lists of symbolic name atoms vs the same specified order"""
    from pyoma2.functions import gen
    W = World()
    tg = W.module(gen)
    S, nref, nrov = cfg["S"], cfg["nref"], cfg["nrov"]
    nchs = [nref + n for n in nrov]
    tally = Tally(W, ["flatten_sns_names"])
    ex = Explorer()
    for reflist in layouts(S, nref, nrov):
        if tally.stop:
            break
        reflist = [list(r) for r in reflist]
        order = expected_order(reflist, nchs)
        state = {}

        def body():
            names = [[fresh(f"name_{i}_{ch}") for ch in range(nchs[i])] for i in range(S)]
            state["names"] = names
            return tg.flatten_sns_names(names, ref_ind=reflist)

        for e, (kind, res) in ex.run_all(body):
            names = state["names"]
            bad = []
            ok_struct = kind == "ok" and isinstance(res, list) and len(res) == len(order)
            if ok_struct:
                for r, key in enumerate(order):
                    if key[0] == "ref":
                        if res[r] != f"REF{key[1] + 1}":
                            ok_struct = False
                    else:
                        if not isinstance(res[r], SV):
                            ok_struct = False
                        else:
                            bad.append(res[r].v != names[key[1]][key[2]].v)
            neg = z3.Or(*bad) if (ok_struct and bad) else z3.BoolVal(not ok_struct)

            def on_sat(m, reflist=reflist):
                inputs = {"reflist": reflist, "nchs": nchs}
                viol, detail, key = replay_o2(cfg, inputs)
                return {"inputs": inputs, "reproduced": viol, "detail": detail, "key": key}
            tally.decide(e, neg, on_sat=on_sat, label=f"reflist={reflist}")
    return tally.result(ex)


def replay_o2(cfg, inputs):
    from pyoma2.functions import gen
    reflist, nchs = inputs["reflist"], inputs["nchs"]
    names = [[f"s{i}_{ch}" for ch in range(nchs[i])] for i in range(len(nchs))]
    order = expected_order(reflist, nchs)
    want = [f"REF{k[1] + 1}" if k[0] == "ref" else names[k[1]][k[2]] for k in order]
    try:
        got = gen.flatten_sns_names(names, ref_ind=reflist)
    except Exception as e:  # noqa: BLE001
        return True, f"flatten_sns_names raised {type(e).__name__}: {e}", "flatten_sns_names:raises"
    if list(got) != want:
        return True, f"reflist={reflist}: flattened {got} != {want}", "flatten_sns_names:order"
    return False, "flattened order as specified", None


# ------------------------------------------------------------------------------------------ O3
class _Res:
    pass


def run_o3(cfg, tier):
    from pyoma2.setup import multi
    sqrt_args = []

    def sqrt_hook(a, *aa, **kw):
        from symx.arr import apply_ufunc, has_sym
        if not has_sym(a):
            return np.sqrt(a, *aa, **kw)
        sqrt_args.extend(lift(x) for x in np.asarray(a, dtype=object).ravel())
        return apply_ufunc(np.sqrt, "__call__", (a,), {})

    W = World(overrides={"np": NPProxy(sqrt=sqrt_hook)})
    S, M = cfg["S"], cfg["modes"]
    tally = Tally(W, ["merge_results", "merge_mode_shapes", "MSF"])
    ex = Explorer(timeout_ms=30000)
    state = {}

    def body():
        del sqrt_args[:]
        fn = [[fresh(f"fn_{i}_{k}") for k in range(M)] for i in range(S)]
        xi = [[fresh(f"xi_{i}_{k}") for k in range(M)] for i in range(S)]
        state["fn"], state["xi"] = fn, xi
        setups = []
        for i in range(S):
            r = _Res()
            r.Fn = SymArray(np.array(fn[i], dtype=object))
            r.Xi = SymArray(np.array(xi[i], dtype=object))
            r.Phi = SymArray(np.array([[lift(1.0)] * M, [lift(0.5)] * M], dtype=object))
            alg = _Res()
            alg.result = r
            alg.name = "alg"
            su = _Res()
            su.algorithms = {"alg": alg}
            setups.append(su)
        ms = W.carrier(multi.MultiSetup_PoSER, names=["A"], _setups=setups, ref_ind=[[0]] * S)
        setattr(ms, "_MultiSetup_PoSER__result", None)
        out = ms.merge_results()
        return out["A"]

    for e, (kind, res) in ex.run_all(body):
        fn, xi = state["fn"], state["xi"]
        pos = [v.z > z3.Q(1, 10) for row in fn + xi for v in row] + [v.z < 100 for row in fn + xi for v in row]
        if kind == "exc":
            tally.decide(e, z3.BoolVal(True), pos, on_sat=lambda m: cex_o3(cfg, fn, xi, m, f"raised {res!r}"))
            continue
        bad, rob = [], []
        for name, src in (("Fn", fn), ("Xi", xi)):
            got_mean = getattr(res, name)
            got_cov = getattr(res, name + "_cov")
            for k in range(M):
                mean = sum((src[i][k] for i in range(S)), lift(0)) / S
                var = sum(((src[i][k] - mean) * (src[i][k] - mean) for i in range(S)), lift(0)) / S
                spec_cov = var.sqrt() / mean      # population std / mean; sqrt is the shared uninterpreted uf_sqrt
                bad += [differs(got_mean[k], mean), differs(got_cov[k], spec_cov)]
                rob += [far(got_mean[k], mean, 1e-6), far(got_cov[k], spec_cov, 1e-6)]
        tally.decide(e, z3.Or(*bad), pos, robust=z3.Or(*rob), on_sat=lambda m: cex_o3(cfg, fn, xi, m, None))
        # rounding guard: a square root whose argument is not non-negative by construction (a difference) and can vanish
        # - setups that agree exactly, the noise-free case - may be handed a slightly negative float
        risky = [a for a in sqrt_args if not a.nn]
        if risky and not tally.stop:
            tally.decide(e, z3.Or(*[a.v == 0 for a in risky]), pos, on_sat=lambda m: cex_ties(cfg, fn, xi, m, tally),
                         label="no square root of a cancelling difference")
    return tally.result(ex)


def cex_o3(cfg, fn, xi, m, note):
    inputs = {"fn": [[concretize(m, v) for v in r] for r in fn], "xi": [[concretize(m, v) for v in r] for r in xi]}
    viol, detail, key = replay_o3(cfg, inputs)
    return {"inputs": inputs, "reproduced": viol, "detail": (note + "; " if note else "") + detail, "key": key}


def cex_ties(cfg, fn, xi, m, tally):
    """the solver's model makes a square-root argument vanish; whether float rounding then bites depends on the values: the
    real code is replayed on the model and on seeded exact ties (all setups report the same value)"""
    note = "square root of a difference that vanishes when the setups agree (cancellation under rounding)"
    c = cex_o3(cfg, fn, xi, m, note)
    if c["reproduced"]:
        return c
    rng = np.random.RandomState(9)
    S, M = len(fn), len(fn[0])
    for _ in range(200):
        inputs = {"fn": np.tile(rng.uniform(0.2, 90.0, M), (S, 1)).tolist(), "xi": np.tile(rng.uniform(0.2, 5.0, M), (S, 1)).tolist()}
        viol, detail, key = replay_o3(cfg, inputs)
        if viol:
            return {"inputs": inputs, "reproduced": True, "detail": note + "; " + detail, "key": key}
    # the abstraction only says rounding MAY bite; nothing reproduced on the real code: inconclusive, not a violation
    tally.inconclusive += 1
    return None


def replay_o3(cfg, inputs):
    from pyoma2.setup import multi
    fn, xi = np.array(inputs["fn"], dtype=float), np.array(inputs["xi"], dtype=float)
    S, M = fn.shape
    setups = []
    for i in range(S):
        r = _Res()
        r.Fn, r.Xi, r.Phi = fn[i], xi[i], np.array([[1.0] * M, [0.5] * M])
        alg = _Res()
        alg.result, alg.name = r, "alg"
        su = _Res()
        su.algorithms = {"alg": alg}
        setups.append(su)
    ms = object.__new__(multi.MultiSetup_PoSER)
    ms.names, ms._setups, ms.ref_ind = ["A"], setups, [[0]] * S
    setattr(ms, "_MultiSetup_PoSER__result", None)
    try:
        res = ms.merge_results()["A"]
    except Exception as e:  # noqa: BLE001
        return True, f"merge_results raised {type(e).__name__}: {e}", "merge_results:raises"
    for name, src in (("Fn", fn), ("Xi", xi)):
        mean = src.mean(axis=0)
        cov = src.std(axis=0) / mean
        if not np.allclose(getattr(res, name), mean, rtol=1e-9, atol=1e-12):
            return True, f"{name}={getattr(res, name)} != mean {mean}", f"merge_results:{name}-mean"
        if not np.all(np.isfinite(getattr(res, name + "_cov"))) or not np.allclose(getattr(res, name + "_cov"), cov, rtol=1e-7, atol=1e-10):
            return True, f"{name}_cov={getattr(res, name + '_cov')} != std/mean {cov}", f"merge_results:{name}-cov"
    return False, "means and population std / mean as specified", None


def replay(ob, cfg, inputs):
    if ob == "O1":
        v, d, _ = replay_o1(cfg, inputs)
    elif ob == "O2":
        v, d, _ = replay_o2(cfg, inputs)
    else:
        v, d, _ = replay_o3(cfg, inputs)
    return v, d
