"""C12 — the SSI Hankel/Toeplitz matrix has the prescribed lag, channel and block layout."""
import itertools

import numpy as np
import z3

from symx.arr import NPProxy, SymArray, fresh
from symx.core import SV, Explorer, concretize, differs, lift
from symx.harness import Tally, to_json
from symx.twin import World

PROPERTY = "C12"
META = {
    "explanation": "The real ssi.build_hank runs on fully symbolic data Y (l x Ndat) and independent symbolic reference "
                   "data Yref (r x Ndat).  For the covariance methods the coefficient of every product Y[a',s]*Yref[b',t] in "
                   "every entry is read off the symbolic entry (substitution of unit impulses into the term), z3 shows that the "
                   "entry EQUALS that bilinear form for all data (so nothing else is in it), and the coefficient pattern is "
                   "checked: only channel a / reference b, one single lag (i+j+1 resp. +-(br+i-j), same sign in every block), "
                   "uniform weights, the same number of products in every entry of a block-diagonal.  For 'dat' np.linalg.qr is a "
                   "Gram-form contract stub (R upper-triangular, R^T R = Ys Ys^T) and z3 shows H*L11^T = Yf*Yp^T and L11*L11^T = "
                   "Yp*Yp^T, i.e. H H^T is the Gram matrix of the projection of the future on the past.",
    "bounds": {"quick": {"l": "1..2", "r": "1..2", "br": "1..2", "Ndat": "2br+4 and 2br+6"},
               "thorough": {"l": "1..3", "r": "1..2", "br": "1..3", "Ndat": "2br+3 .. 12"}},
    "stubs": ["np.linalg.qr(mode='r'): fresh upper-triangular R with the documented Gram consequence R^T R = A^T A ('dat' only)"],
    "assumptions": ["'dat': L11 non-singular is needed to read the two identities as the projection statement (paper step)"],
}


def jobs(tier):
    out = []
    if tier == "quick":
        ls, rs, brs = (1, 2), (1, 2), (1, 2)
    else:
        ls, rs, brs = (1, 2, 3), (1, 2), (1, 2, 3)
    for method in ("cov_mm", "cov_R"):
        for l, r, br in itertools.product(ls, rs, brs):
            nds = (2 * br + 4, 2 * br + 6) if tier == "quick" else range(2 * br + 3, 13)
            for nd in nds:
                out.append({"ob": "O2" if method == "cov_mm" else "O3", "cfg": {"method": method, "l": l, "r": r, "br": br, "Ndat": nd}})
    for l, r, br in itertools.product(ls, rs, brs):
        if r * (br + 1) > 4 or l * (br + 1) > 6:
            continue
        # the QR contract needs at least as many samples as stacked rows: N-1 >= (br+1)(l+r)
        nmin = (br + 1) * (l + r) + 2 * br + 2
        for nd in ((nmin,) if tier == "quick" else (nmin, nmin + 2)):
            out.append({"ob": "O5", "cfg": {"method": "dat", "l": l, "r": r, "br": br, "Ndat": nd}})
    out.append({"ob": "O1", "cfg": {"method": "bad", "l": 1, "r": 1, "br": 1, "Ndat": 8}})
    return out


def run(job, tier):
    cfg = job["cfg"]
    if job["ob"] == "O1":
        return run_invalid(cfg)
    if cfg["method"] == "dat":
        return run_dat(cfg, tier)
    return run_cov(cfg, tier)


def sym_data(cfg):
    Y = fresh("Y", (cfg["l"], cfg["Ndat"]))
    Yref = fresh("R", (cfg["r"], cfg["Ndat"]))
    return Y, Yref


def coeffs(term, Y, Yref):
    """coefficient of Y[a,s]*Yref[b,t] in the z3 term, by substituting unit impulses"""
    ys = [Y[ix].v for ix in np.ndindex(Y.shape)]
    rs = [Yref[ix].v for ix in np.ndindex(Yref.shape)]
    zero, one = z3.RealVal(0), z3.RealVal(1)
    out = {}
    # first find which Y symbols matter at all (set all Yref to 1)
    for iy, yix in enumerate(np.ndindex(Y.shape)):
        sub = [(v, one if k == iy else zero) for k, v in enumerate(ys)] + [(v, one) for v in rs]
        if z3.is_rational_value(z3.simplify(z3.substitute(term, *sub))) and z3.simplify(z3.substitute(term, *sub)).numerator_as_long() == 0:
            continue
        for ir, rix in enumerate(np.ndindex(Yref.shape)):
            sub = [(v, one if k == iy else zero) for k, v in enumerate(ys)] + [(v, one if k == ir else zero) for k, v in enumerate(rs)]
            val = z3.simplify(z3.substitute(term, *sub))
            if not z3.is_rational_value(val):
                return None
            if val.numerator_as_long() != 0:
                out[(yix, rix)] = val
    return out


def run_cov(cfg, tier):
    from pyoma2.functions import ssi
    W = World()
    tm = W.module(ssi)
    l, r, br, nd, method = cfg["l"], cfg["r"], cfg["br"], cfg["Ndat"], cfg["method"]
    tally = Tally(W, ["build_hank"])
    ex = Explorer(timeout_ms=30000)
    st = {}

    def body():
        Y, Yref = sym_data(cfg)
        st["Y"], st["Yref"] = Y, Yref
        return tm.build_hank(Y=Y, Yref=Yref, br=br, method=method, calc_unc=False)

    for e, (kind, res) in ex.run_all(body):
        Y, Yref = st["Y"], st["Yref"]
        if kind == "exc":
            tally.decide(e, z3.BoolVal(True), on_sat=lambda m: cex(cfg, Y, Yref, m, f"raised {res!r}"))
            continue
        H, T = res
        if T is not None or np.shape(H) != ((br + 1) * l, (br + 1) * r):
            tally.decide(e, z3.BoolVal(True), on_sat=lambda m: cex(cfg, Y, Yref, m, f"shape {np.shape(H)}"), label="O1 shape")
            continue
        bad_struct = []
        neq = []
        counts = {}
        sign = None
        for i in range(br + 1):
            for a in range(l):
                for j in range(br + 1):
                    for b in range(r):
                        ent = lift(H[i * l + a, j * r + b])
                        if ent.d is not None:
                            bad_struct.append(f"entry ({i},{a};{j},{b}) is not polynomial in the data")
                            continue
                        c = coeffs(ent.v, Y, Yref)
                        if c is None or not c:
                            bad_struct.append(f"entry ({i},{a};{j},{b}) has no bilinear part")
                            continue
                        # (1) the entry IS that bilinear form, for all data — decided by z3
                        form = sum((w * Y[yix].v * Yref[rix].v for (yix, rix), w in c.items()), z3.RealVal(0))
                        neq.append(ent.v != form)
                        # (2) pattern of the coefficients
                        chans = {(yix[0], rix[0]) for (yix, rix) in c}
                        lags = {yix[1] - rix[1] for (yix, rix) in c}
                        ws = {str(w) for w in c.values()}
                        want = i + j + 1 if method == "cov_mm" else br + i - j
                        if chans != {(a, b)}:
                            bad_struct.append(f"entry ({i},{a};{j},{b}) mixes channels {sorted(chans)}")
                        if len(lags) != 1:
                            bad_struct.append(f"entry ({i},{a};{j},{b}) mixes lags {sorted(lags)}")
                        else:
                            lag = lags.pop()
                            if method == "cov_mm":
                                if lag != want:
                                    bad_struct.append(f"entry ({i},{a};{j},{b}) has lag {lag}, specified {want}")
                            else:
                                if abs(lag) != want:
                                    bad_struct.append(f"entry ({i},{a};{j},{b}) has |lag| {abs(lag)}, specified {want}")
                                if want != 0:
                                    sg = 1 if lag > 0 else -1
                                    if sign is None:
                                        sign = sg
                                    elif sg != sign:
                                        bad_struct.append(f"entry ({i},{a};{j},{b}): lag sign differs between blocks")
                        if len(ws) != 1:
                            bad_struct.append(f"entry ({i},{a};{j},{b}) has non-uniform weights {sorted(ws)[:3]}")
                        ts = sorted(rix[1] for (_, rix) in c)
                        if ts != list(range(ts[0], ts[0] + len(ts))):
                            bad_struct.append(f"entry ({i},{a};{j},{b}) averages a non-contiguous set of products")
                        key = (i + j) if method == "cov_mm" else (br + i - j)
                        counts.setdefault(key, set()).add((len(c), sorted(ws)[0]))
        for key, v in counts.items():
            if len(v) != 1:
                bad_struct.append(f"entries of lag class {key} differ in number of products / weight: {sorted(v)}")
        if method == "cov_mm" and len({w for v in counts.values() for (_, w) in v}) != 1:
            bad_struct.append("cov_mm: weight differs between entries")
        neg = z3.Or(z3.BoolVal(bool(bad_struct)), *neq) if neq else z3.BoolVal(True)
        tally.decide(e, neg, on_sat=lambda m: cex(cfg, Y, Yref, m, "; ".join(bad_struct[:3]) or None),
                     label=f"{method} l={l} r={r} br={br} Ndat={nd}")
    return tally.result(ex)


def cex(cfg, Y, Yref, m, note):
    inputs = {"Y": concretize(m, Y), "Yref": concretize(m, Yref)}
    viol, detail, key = replay_cov(cfg, inputs)
    return {"inputs": to_json(inputs), "reproduced": viol, "detail": (note + " | " if note else "") + detail, "key": key}


def reference_hank(cfg, Y, Yref):
    """independent construction from the definition"""
    l, r, br, nd, method = cfg["l"], cfg["r"], cfg["br"], cfg["Ndat"], cfg["method"]
    p, q = br, br + 1
    N = nd - p - q
    H = np.zeros(((br + 1) * l, (br + 1) * r))
    for i in range(br + 1):
        for a in range(l):
            for j in range(br + 1):
                for b in range(r):
                    if method == "cov_mm":
                        lag = i + j + 1
                        t0 = q - j
                        H[i * l + a, j * r + b] = sum(Y[a, t0 + lag + t] * Yref[b, t0 + t] for t in range(N - 1)) / N
                    else:
                        k = br + i - j
                        H[i * l + a, j * r + b] = sum(Y[a, t] * Yref[b, t + k] for t in range(nd - k)) / (nd - k)
    return H


def replay_cov(cfg, inputs):
    """real build_hank on (a) the model's data and (b) unit impulses, against the definition"""
    from pyoma2.functions import ssi
    l, r, br, nd, method = cfg["l"], cfg["r"], cfg["br"], cfg["Ndat"], cfg["method"]
    trials = []
    if inputs.get("Y") is not None:
        trials.append((np.array(inputs["Y"], dtype=float), np.array(inputs["Yref"], dtype=float)))
    rng = np.random.RandomState(0)
    trials.append((rng.randn(l, nd), rng.randn(r, nd)))
    for Y, Yref in trials:
        try:
            H, _ = ssi.build_hank(Y=Y, Yref=Yref, br=br, method=method, calc_unc=False)
        except Exception as e:  # noqa: BLE001
            return True, f"build_hank raised {type(e).__name__}: {e}", f"build_hank:{method}:raises"
        if H.shape != ((br + 1) * l, (br + 1) * r):
            return True, f"shape {H.shape} != {((br + 1) * l, (br + 1) * r)}", f"build_hank:{method}:shape"
        ref = reference_hank(cfg, Y, Yref)
        if method == "cov_mm":
            if not np.allclose(H, ref, rtol=1e-9, atol=1e-12):
                ij = np.unravel_index(np.argmax(np.abs(H - ref)), H.shape)
                return True, (f"{method} l={l} r={r} br={br} Ndat={nd}: entry {ij} = {H[ij]:.6g}, definition (lag i+j+1, weight 1/N) "
                              f"gives {ref[ij]:.6g}"), f"build_hank:{method}:layout"
        else:
            # either sign convention, but one for all blocks
            ref2 = reference_hank(cfg, Yref if l == r else Y, Yref)  # placeholder, replaced below
            alt = np.zeros_like(ref)
            for i in range(br + 1):
                for a in range(l):
                    for j in range(br + 1):
                        for b in range(r):
                            k = br + i - j
                            alt[i * l + a, j * r + b] = sum(Y[a, t + k] * Yref[b, t] for t in range(nd - k)) / (nd - k)
            if not (np.allclose(H, ref, rtol=1e-9, atol=1e-12) or np.allclose(H, alt, rtol=1e-9, atol=1e-12)):
                ij = np.unravel_index(np.argmax(np.abs(H - ref)), H.shape)
                return True, (f"{method} l={l} r={r} br={br} Ndat={nd}: entry {ij} = {H[ij]:.6g} matches neither sign convention of "
                              f"lag br+i-j ({ref[ij]:.6g} / {alt[ij]:.6g})"), f"build_hank:{method}:layout"
    return False, "layout as specified", None


# ------------------------------------------------------------------------------------------ dat
class QRStub:
    def __init__(self):
        self.calls = []

    def qr(self, A, mode="reduced"):
        if mode != "r":
            raise NotImplementedError("qr stub: only mode='r' is modelled")
        A = np.asarray(A, dtype=object)
        n, m = A.shape
        K = min(n, m)
        R = np.empty((K, m), dtype=object)
        e = Explorer.cur
        for i in range(K):
            for j in range(m):
                R[i, j] = SV(z3.Real(f"qrR_{i}_{j}")) if j >= i else lift(0.0)
        if K == m:
            for i in range(m):
                for j in range(i, m):
                    lhs = sum((lift(R[k, i]).v * lift(R[k, j]).v for k in range(min(i, j) + 1)), z3.RealVal(0))
                    rhs = sum((lift(A[t, i]).v * lift(A[t, j]).v for t in range(n)), z3.RealVal(0))
                    e.add_def(lhs == rhs)
        self.calls.append((A, R))
        return SymArray(R)

    def __getattr__(self, k):
        raise NotImplementedError(f"np.linalg.{k} is not modelled in this harness")


def run_dat(cfg, tier):
    from pyoma2.functions import ssi
    stub = QRStub()
    W = World(overrides={"np": NPProxy(linalg=stub)})
    tm = W.module(ssi)
    l, r, br, nd = cfg["l"], cfg["r"], cfg["br"], cfg["Ndat"]
    tally = Tally(W, ["build_hank"])
    ex = Explorer(timeout_ms=60000)
    st = {}

    def body():
        Y, Yref = sym_data(cfg)
        st["Y"], st["Yref"] = Y, Yref
        stub.calls.clear()
        return tm.build_hank(Y=Y, Yref=Yref, br=br, method="dat", calc_unc=False)

    for e, (kind, res) in ex.run_all(body):
        Y, Yref = st["Y"], st["Yref"]
        if kind == "exc":
            tally.decide(e, z3.BoolVal(True), on_sat=lambda m: cex_dat(cfg, Y, Yref, m, f"raised {res!r}"))
            continue
        H, _ = res
        p, q = br, br + 1
        N = nd - p - q
        if np.shape(H) != ((br + 1) * l, (br + 1) * r) or len(stub.calls) != 1:
            tally.decide(e, z3.BoolVal(True), on_sat=lambda m: cex_dat(cfg, Y, Yref, m, f"shape {np.shape(H)}"))
            continue
        A, R = stub.calls[0]
        # specification-side future/past matrices from the definition (scaled by 1/sqrt(N) each => products by 1/N)
        Yf = [[Y[a, q + 1 + i + t] for t in range(N - 1)] for i in range(p + 1) for a in range(l)]
        Yp = [[Yref[b, q - j + t] for t in range(N - 1)] for j in range(q) for b in range(r)]
        nr = r * (p + 1)
        L11 = [[lift(R[c, rr]) for c in range(nr)] for rr in range(nr)]   # L = R^T, L11 = leading block
        from fractions import Fraction
        cw = Fraction(float(1 / N ** 0.5)) ** 2      # the code scales rows by the double 1/N**0.5: products carry its square
        w = z3.Q(cw.numerator, cw.denominator)
        obs = []
        for i in range(len(Yf)):
            for j in range(nr):
                lhs = sum((lift(H[i, k]).v * L11[j][k].v for k in range(nr)), z3.RealVal(0))
                rhs = sum((Yf[i][t].v * Yp[j][t].v for t in range(N - 1)), z3.RealVal(0)) * w
                obs.append((lhs != rhs, f"H*L11^T[{i},{j}] == Yf*Yp^T"))
        for i in range(nr):
            for j in range(i, nr):
                lhs = sum((L11[i][k].v * L11[j][k].v for k in range(nr)), z3.RealVal(0))
                rhs = sum((Yp[i][t].v * Yp[j][t].v for t in range(N - 1)), z3.RealVal(0)) * w
                obs.append((lhs != rhs, f"L11*L11^T[{i},{j}] == Yp*Yp^T"))
        for neg, label in obs:
            # a valid instance is refuted in milliseconds (it is one of the contract equations); a short budget keeps
            # broken code from stalling the check in a non-linear model search
            v = tally.decide(e, neg, on_sat=lambda m: cex_dat(cfg, Y, Yref, m, None), label=label, timeout_ms=8000)
            if v != "unsat":
                if v == "unknown":
                    # not refutable from the contract: confirm on the real code before calling it inconclusive
                    c = cex_dat(cfg, Y, Yref, None, f"{label} not derivable from the QR contract")
                    if c["reproduced"]:
                        tally.cex.append(c)
                break
    return tally.result(ex)


def cex_dat(cfg, Y, Yref, m, note):
    inputs = {}
    viol, detail, key = replay_dat(cfg, inputs)
    return {"inputs": inputs, "reproduced": viol, "detail": (note + " | " if note else "") + detail, "key": key}


def replay_dat(cfg, inputs):
    """real build_hank('dat') on seeded data: Gram matrix of H equals that of the projection of future on past"""
    from pyoma2.functions import ssi
    l, r, br, nd = cfg["l"], cfg["r"], cfg["br"], cfg["Ndat"]
    p, q = br, br + 1
    N = nd - p - q
    rng = np.random.RandomState(3)
    nd2 = max(nd, 4 * (br + 1) * (l + r) + 10)   # enough samples for a full-rank past
    N2 = nd2 - p - q
    Y, Yref = rng.randn(l, nd2), rng.randn(r, nd2)
    try:
        H, _ = ssi.build_hank(Y=Y, Yref=Yref, br=br, method="dat", calc_unc=False)
    except Exception as e:  # noqa: BLE001
        return True, f"build_hank('dat') raised {type(e).__name__}: {e}", "build_hank:dat:raises"
    if H.shape != ((br + 1) * l, (br + 1) * r):
        return True, f"shape {H.shape}", "build_hank:dat:shape"
    Yf = np.vstack([Y[:, q + 1 + i: N2 + q + i] for i in range(p + 1)]) / np.sqrt(N2)
    Yp = np.vstack([Yref[:, q - j: N2 + q - 1 - j] for j in range(q)]) / np.sqrt(N2)
    P = Yf @ Yp.T @ np.linalg.pinv(Yp @ Yp.T) @ Yp
    if not np.allclose(H @ H.T, P @ P.T, rtol=1e-7, atol=1e-9):
        return True, f"dat l={l} r={r} br={br}: H H^T differs from the Gram matrix of the projection of the future on the past", "build_hank:dat:projection"
    return False, "projection identity holds", None


def run_invalid(cfg):
    from pyoma2.functions import ssi
    W = World()
    tm = W.module(ssi)
    tally = Tally(W, ["build_hank"])
    ex = Explorer()

    def body():
        Y, Yref = sym_data(cfg)
        return tm.build_hank(Y=Y, Yref=Yref, br=1, method="nonsense")
    for e, (kind, res) in ex.run_all(body):
        bad = not (kind == "exc" and isinstance(res, AttributeError))
        tally.decide(e, z3.BoolVal(bad), on_sat=lambda m: {"inputs": {}, "reproduced": True, "detail": "invalid method accepted",
                                                         "key": "build_hank:invalid-method"}, label="invalid method raises")
    return tally.result(ex)


def replay(ob, cfg, inputs):
    if cfg["method"] == "dat":
        v, d, _ = replay_dat(cfg, inputs)
    elif cfg["method"] == "bad":
        return False, "n/a"
    else:
        v, d, _ = replay_cov(cfg, inputs)
    return v, d
