"""C05 — pLSCF recovers an exactly rational spectrum and reports its poles (unit lemmas)."""
import itertools
from fractions import Fraction

import numpy as np
import z3

from symx.arr import NPProxy, SymArray, fork_where, fresh
from symx.core import SC, SV, Explorer, ShimGap, concretize, differs, differs_nan, lift, sqof, toc
from symx.harness import Tally, to_json
from symx.twin import World

PROPERTY = "C05"
META = {
    "explanation": "O1 the real plscf.pLSCF runs on a spectrum that is exactly B(z) A(z)^-1 with symbolic real coefficients (library "
                   "normalisation A0 = I for the 'LO' basis sign, An = I for 'HI'), with np.exp returning exact rational points on the unit "
                   "circle and np.linalg.solve in closed form: z3 shows the returned denominator coefficients equal the true ones "
                   "(inverse-free, sum-of-monomials normalisation).  O2 the real plscf.rmfd2ac: det(A_last) * det(lambda I - A_c) == "
                   "lambda^m * det(sum A_i lambda^i) as a polynomial identity in a symbolic lambda (the companion carries m structural zero "
                   "eigenvalues, blanked later as infinite frequencies), and C is built from the matching numerator blocks.  O3 the real "
                   "plscf.ac2mp_poly / pLSCF_poles with an eig stub and an uninterpreted log: lam_c = L(lambda)/dt, blanked iff Re > 0 "
                   "(jointly in fn, xi, phi, lam_c), fn^2 (2 pi)^2 = |lam_c|^2, xi^2 |lam_c|^2 = Re^2 with the sign of -Re, 'cor' shifts by "
                   "1/tau; the pole tables hold the poles of order k in column k, rows 0.., padded with NaN, infinite frequencies blanked.",
    "bounds": {"quick": {"O1": "Nch=Nref=1, order 1, 6 lines, both basis signs", "O2": "(Nch, order) in {(1,1),(1,2),(2,1)}", "O3": "order 2, "
                         "2 channels; tables for ordmax 3"},
               "thorough": {"O1": "also 8 lines", "O2": "also (2,2), (1,3)", "O3": "as quick"}},
    "stubs": ["np.exp: exact rational points on the unit circle ((1-t^2)/(1+t^2), 2t/(1+t^2)) - the recovery identity is algebraic in the "
              "basis points; the claim is for those point sets", "np.linalg.solve: closed form (1x1, 2x2)", "np.linalg.eig: symbolic "
              "eigenvalues/vectors; np.log uninterpreted", "pLSCF_poles table test: rmfd2ac / ac2mp_poly return tagged symbols"],
    "assumptions": ["floating-point conditioning of the normal equations is outside the claim", "orders / channel counts beyond the bound"],
}


def jobs(tier):
    out = []
    q = tier == "quick"
    for sgn in (-1, 1):
        for nf in ((6,) if q else (6, 8)):
            out.append({"ob": "O1", "cfg": {"Nch": 1, "Nref": 1, "n": 1, "Nf": nf, "sgn": sgn}})
    for nch, n in ([(1, 1), (1, 2), (2, 1)] if q else [(1, 1), (1, 2), (2, 1), (2, 2), (1, 3)]):
        out.append({"ob": "O2", "cfg": {"Nch": nch, "n": n, "l": 1}})
    out.append({"ob": "O2", "cfg": {"Nch": 2, "n": 1, "l": 2}})
    for m in ("per", "cor"):
        out.append({"ob": "O3", "cfg": {"part": "poly", "n": 2, "nch": 2, "method": m}})
    out.append({"ob": "O3", "cfg": {"part": "table", "ordmax": 3, "nch": 2}})
    return out


def run(job, tier):
    cfg = job["cfg"]
    if job["ob"] == "O1":
        return run_recover(cfg, tier)
    if job["ob"] == "O2":
        return run_companion(cfg, tier)
    return run_poly(cfg, tier) if cfg["part"] == "poly" else run_table(cfg, tier)


# ------------------------------------------------------------------------------------------ closed-form linear algebra stub
class LA:
    def __init__(self, eig=None):
        self._eig = eig

    def solve(self, A, B):
        A = np.asarray(A, dtype=object)
        B = np.asarray(B, dtype=object)
        n = A.shape[0]
        if A.shape != (n, n) or n > 2:
            raise ShimGap(f"solve stub: {A.shape}")
        Bm = B.reshape(n, -1)
        if n == 1:
            X = np.array([[lift(Bm[0, j]) / lift(A[0, 0]) for j in range(Bm.shape[1])]], dtype=object)
        else:
            a, b, c, d = (lift(A[0, 0]), lift(A[0, 1]), lift(A[1, 0]), lift(A[1, 1]))
            det = a * d - b * c
            X = np.empty(Bm.shape, dtype=object)
            for j in range(Bm.shape[1]):
                X[0, j] = (d * Bm[0, j] - b * Bm[1, j]) / det
                X[1, j] = (a * Bm[1, j] - c * Bm[0, j]) / det
        return SymArray(X.reshape(B.shape))

    def eig(self, A):
        return self._eig(A)

    def __getattr__(self, k):
        raise ShimGap(f"np.linalg.{k} not modelled")


# ------------------------------------------------------------------------------------------ O2 companion form
def det(M):
    n = len(M)
    if n == 1:
        return M[0][0]
    if n == 2:
        return M[0][0] * M[1][1] - M[0][1] * M[1][0]
    tot = lift(0)
    for j in range(n):
        minor = [[M[i][k] for k in range(n) if k != j] for i in range(1, n)]
        term = M[0][j] * det(minor)
        tot = tot + term if j % 2 == 0 else tot - term
    return tot


def run_companion(cfg, tier):
    from pyoma2.functions import plscf
    W = World(overrides={"np": NPProxy(linalg=LA())})
    tp = W.module(plscf)
    m, n, l = cfg["Nch"], cfg["n"], cfg["l"]
    tally = Tally(W, ["rmfd2ac"])
    ex = Explorer(timeout_ms=60000, push_feas=True)
    st = {}

    def body():
        A_den = fresh("Ad", (n + 1, m, m))
        B_num = fresh("Bn", (n + 1, l, m))
        st.update(A_den=A_den, B_num=B_num)
        return tp.rmfd2ac(A_den, B_num)

    for e, (kind, res) in ex.run_all(body):
        A_den, B_num = st["A_den"], st["B_num"]
        if kind == "exc":
            tally.decide(e, z3.BoolVal(True), on_sat=lambda mm: cex_comp(cfg, f"raised {type(res).__name__}: {res}"), with_side=False)
            continue
        Ac, Cc = res
        N = (n + 1) * m
        if np.shape(Ac) != (N, N) or np.shape(Cc) != (l, N):
            tally.decide(e, z3.BoolVal(True), on_sat=lambda mm: cex_comp(cfg, f"shapes {np.shape(Ac)} {np.shape(Cc)}"), with_side=False)
            continue
        lam = fresh("lam")
        lamI_A = [[(lam if i == j else lift(0)) - lift(Ac[i, j]) for j in range(N)] for i in range(N)]
        Alast = [[A_den[n, i, j] for j in range(m)] for i in range(m)]
        pw = [lift(1)]
        for _ in range(n):
            pw.append(pw[-1] * lam)
        P = [[sum((A_den[k, i, j] * pw[k] for k in range(n + 1)), lift(0)) for j in range(m)] for i in range(m)]
        lam_m = lift(1)
        for _ in range(m):
            lam_m = lam_m * lam
        bad = [differs(det(lamI_A) * det(Alast), lam_m * det(P))]
        # C blocks: C[:, i*m:(i+1)*m] = B_{n-1-i} - B_n A_n^-1 A_{n-1-i}  (inverse-free: times det(A_n) via the adjugate)
        if m == 1:
            for i in range(n):
                k = n - 1 - i
                for a in range(l):
                    want = B_num[k, a, 0] - B_num[n, a, 0] * A_den[k, 0, 0] / A_den[n, 0, 0]
                    bad.append(differs(Cc[a, i], want))
            for a in range(l):
                bad.append(differs(Cc[a, n], 0))
        tally.decide(e, z3.Or(*bad), on_sat=lambda mm: cex_comp(cfg, None), label=f"companion Nch={m} order={n}")
    return tally.result(ex)


def cex_comp(cfg, note):
    v, d = replay_comp(cfg)
    return {"inputs": {}, "reproduced": v, "detail": (note + " | " if note else "") + d, "key": "rmfd2ac:companion"}


def replay_comp(cfg):
    from pyoma2.functions import plscf
    rng = np.random.RandomState(6)
    m, n, l = cfg["Nch"], cfg["n"], cfg["l"]
    A_den, B_num = rng.randn(n + 1, m, m), rng.randn(n + 1, l, m)
    try:
        Ac, Cc = plscf.rmfd2ac(A_den, B_num)
    except Exception as e:  # noqa: BLE001
        return True, f"rmfd2ac raised {type(e).__name__}: {e}"
    ev = np.linalg.eigvals(Ac)
    nz = ev[np.abs(ev) > 1e-9]
    for lam in nz:
        P = sum(A_den[k] * lam ** k for k in range(n + 1))
        if abs(np.linalg.det(P)) > 1e-6 * max(1.0, np.abs(P).max() ** m):
            return True, f"eigenvalue {lam:.6g} of the companion matrix is not a root of det A(z)"
    if len(nz) != n * m:
        return True, f"{len(nz)} non-zero companion eigenvalues for {n * m} roots"
    return False, "companion eigenvalues are the roots of det A(z)"


# ------------------------------------------------------------------------------------------ O3 poles
class EigStub:
    def __init__(self, n):
        self.n = n

    def __call__(self, A):
        n = self.n
        lam = SymArray(np.array([SC(z3.Real(f"lam{j}r"), z3.Real(f"lam{j}i")) for j in range(n)], dtype=object))
        vr = SymArray(np.array([[toc(1.0 if i == j else 0.0) for j in range(n)] for i in range(n)], dtype=object))
        self.lam = lam
        return lam, vr


def run_poly(cfg, tier):
    from pyoma2.functions import plscf
    n, nch = cfg["n"], cfg["nch"]
    eig = EigStub(n)
    W = World(overrides={"np": NPProxy(linalg=LA(eig), where=fork_where)})
    tp = W.module(plscf)
    tally = Tally(W, ["ac2mp_poly"])
    ex = Explorer(timeout_ms=30000, push_feas=True)
    st = {}
    nxseg = 16

    def body():
        dt = fresh("dt", nn=True)
        Explorer.cur.assume(dt.v > 0)
        A = fresh("A", (n, n))
        C = fresh("C", (nch, n), complex_=True)
        st.update(dt=dt, C=C)
        return tp.ac2mp_poly(A, C, dt, cfg["method"], nxseg)

    clr = z3.Function("uf_clog_re", z3.RealSort(), z3.RealSort(), z3.RealSort())
    cli = z3.Function("uf_clog_im", z3.RealSort(), z3.RealSort(), z3.RealSort())
    for e, (kind, res) in ex.run_all(body):
        dt, C = st["dt"], st["C"]
        if kind == "exc":
            tally.decide(e, z3.BoolVal(True), on_sat=lambda mm: cex_poly(cfg, f"raised {type(res).__name__}: {res}"), with_side=False)
            continue
        fn, xi, phi, lam_c = res
        negs = []
        import math
        tau = -(nxseg - 1) / math.log(0.01)
        for j in range(n):
            lr, li = clr(eig.lam[j].re, eig.lam[j].im), cli(eig.lam[j].re, eig.lam[j].im)
            re0, im0 = SV(lr) / dt, SV(li) / dt             # continuous-time eigenvalue before blanking / window correction
            unstable = re0.z > 0
            flags = [lift(fn[j]).nan, lift(xi[j]).nan, toc(lam_c[j]).nan] + [toc(phi[j, c]).nan for c in range(nch)]
            # blanked iff Re > 0, jointly in all outputs
            negs.append(z3.Or(*[fl != unstable for fl in flags]))
            shift = lift(0) if cfg["method"] == "per" else lift(1) / (dt * tau)
            re1 = re0 - shift
            keep = z3.Not(unstable)
            negs.append(z3.And(keep, z3.Or(differs(toc(lam_c[j]).real, re1), differs(toc(lam_c[j]).imag, im0))))
            mod2 = re1 * re1 + im0 * im0
            two_pi2 = lift(2 * math.pi) * lift(2 * math.pi)
            negs.append(z3.And(keep, differs(sqof(lift(fn[j])) * two_pi2, mod2)))
            negs.append(z3.And(keep, differs(sqof(lift(xi[j])) * mod2, re1 * re1)))
            # xi |lam| = -Re: xi and Re have opposite signs (denominators are positive: dt > 0, moduli are non-negative roots)
            xj = lift(xi[j])
            if xj.dp and re1.dp:
                negs.append(z3.And(keep, xj.v * re1.v > 0))
        decide_each(tally, e, negs, lambda mm: cex_poly(cfg, None), f"ac2mp_poly {cfg['method']}")
    return tally.result(ex)


def decide_each(tally, e, negs, on_sat, label, timeout_ms=20000):
    for k, neg in enumerate(negs):
        sneg = z3.simplify(neg)
        if z3.is_false(sneg):
            tally.obligations += 1
            tally.discharged += 1
            tally.reach = True
            continue
        v = tally.decide(e, sneg, on_sat=on_sat, label=f"{label} [{k}]", timeout_ms=timeout_ms)
        if v == "sat" and tally.stop:
            break


def cex_poly(cfg, note):
    v, d = replay_poly(cfg)
    return {"inputs": {}, "reproduced": v, "detail": (note + " | " if note else "") + d, "key": f"ac2mp_poly:{cfg['method']}"}


def replay_poly(cfg):
    import math
    from pyoma2.functions import plscf
    n, nch = cfg["n"], cfg["nch"]
    nxseg = 16
    dt = 0.02
    # one stable and one unstable discrete pole (|z| > 1 -> Re > 0)
    # stable, unstable, mixed real, and a pair exactly on the unit circle (Re lam_c == 0: non-positive, must be reported)
    for lams in ([0.9 * np.exp(0.4j), 0.9 * np.exp(-0.4j)], [1.05 * np.exp(0.3j), 1.05 * np.exp(-0.3j)], [0.95, 1.1], [1j, -1j]):
        V = np.array([[1, 1], [lams[0], lams[1]]], dtype=complex)
        A = np.real_if_close(V @ np.diag(lams) @ np.linalg.inv(V))
        if lams[0] == 1j:
            A = np.array([[0.0, -1.0], [1.0, 0.0]])     # exact rotation: eigenvalues exactly +-i
        C = np.random.RandomState(1).randn(nch, n)
        with np.errstate(all="ignore"):
            fn, xi, phi, lam_c = plscf.ac2mp_poly(np.real(A), C, dt, cfg["method"], nxseg)
        lam_d = np.linalg.eigvals(np.real(A))
        for j in range(n):
            # match output j to an eigenvalue
            ld = np.linalg.eig(np.real(A))[0][j]
            lc = np.log(ld) / dt
            unstable = lc.real > 0
            if unstable != bool(np.isnan(fn[j])) or bool(np.isnan(fn[j])) != bool(np.isnan(xi[j])) or bool(np.isnan(fn[j])) != bool(np.any(np.isnan(phi[j]))):
                return True, f"ac2mp_poly({cfg['method']}): pole {ld:.4g} (Re lam_c = {lc.real:.4g}) blanking inconsistent: fn={fn[j]}, xi={xi[j]}"
            if not unstable:
                if cfg["method"] == "cor":
                    lc = lc - 1 / (-(nxseg - 1) / math.log(0.01) * dt)
                if abs(fn[j] - abs(lc) / (2 * math.pi)) > 1e-9 * abs(lc) or abs(xi[j] + lc.real / abs(lc)) > 1e-9:
                    return True, f"ac2mp_poly({cfg['method']}): fn={fn[j]}, xi={xi[j]} for lam_c={lc}"
    return False, "poles as specified"


def run_table(cfg, tier):
    """pLSCF_poles: column k holds the poles of order k+1, NaN padded, infinite frequencies blanked"""
    from pyoma2.functions import plscf
    ordmax, nch = cfg["ordmax"], cfg["nch"]
    rec = {"k": 0}

    def fake_rmfd2ac(A_den, B_num):
        return ("A", rec["k"]), ("C", rec["k"])

    def fake_poly(A, C, dt, methodSy, nxseg):
        k = A[1]
        rec["k"] += 1
        npole = (k + 2) * nch            # companion of order k+1 carries nch structural zeros
        fn = np.empty(npole, dtype=object)
        for r in range(npole):
            fn[r] = float("inf") if r >= (k + 1) * nch else SV(z3.Real(f"fn_{k}_{r}"), z3.Bool(f"nan_{k}_{r}"))
        xi = np.array([SV(z3.Real(f"xi_{k}_{r}"), z3.Bool(f"nan_{k}_{r}")) for r in range(npole)], dtype=object)
        phi = np.array([[SC(z3.Real(f"ph_{k}_{r}_{c}r"), z3.Real(f"ph_{k}_{r}_{c}i"), z3.Bool(f"nan_{k}_{r}")) for c in range(nch)]
                        for r in range(npole)], dtype=object)
        lam = np.array([SC(z3.Real(f"lc_{k}_{r}r"), z3.Real(f"lc_{k}_{r}i"), z3.Bool(f"nan_{k}_{r}")) for r in range(npole)], dtype=object)
        return SymArray(fn), SymArray(xi), SymArray(phi), SymArray(lam)

    W = World(per_module={"pyoma2.functions.plscf": {"rmfd2ac": fake_rmfd2ac, "ac2mp_poly": fake_poly}})
    tp = W.module(plscf)
    tally = Tally(W, ["pLSCF_poles"])
    ex = Explorer()

    def body():
        rec["k"] = 0
        Ad = [np.zeros((k + 2, nch, nch)) for k in range(ordmax)]
        Bn = [np.zeros((k + 2, 1, nch)) for k in range(ordmax)]
        return tp.pLSCF_poles(Ad, Bn, 0.01, "per", 16)

    for e, (kind, res) in ex.run_all(body):
        why, bad = [], []
        if kind == "exc":
            why.append(f"raised {type(res).__name__}: {res}")
        else:
            Fns, Xis, Phis, Lambds = res
            rows = (ordmax + 1) * nch
            if np.shape(Fns) != (rows, ordmax) or np.shape(Xis) != (rows, ordmax) or np.shape(Phis) != (rows, ordmax, nch):
                why.append(f"table shapes {np.shape(Fns)} {np.shape(Xis)} {np.shape(Phis)} (expected ({rows},{ordmax}[,{nch}]))")
            else:
                for k in range(ordmax):
                    for r in range(rows):
                        if r < (k + 1) * nch:
                            bad.append(differs_nan(Fns[r, k], SV(z3.Real(f"fn_{k}_{r}"), z3.Bool(f"nan_{k}_{r}"))))
                            bad.append(differs_nan(Xis[r, k], SV(z3.Real(f"xi_{k}_{r}"), z3.Bool(f"nan_{k}_{r}"))))
                            for c in range(nch):
                                bad.append(differs_nan(Phis[r, k, c], SC(z3.Real(f"ph_{k}_{r}_{c}r"), z3.Real(f"ph_{k}_{r}_{c}i"), z3.Bool(f"nan_{k}_{r}"))))
                        else:
                            v = Fns[r, k]
                            isnan = (isinstance(v, float) and v != v) or (isinstance(v, SV) and z3.is_true(z3.simplify(v.nan)))
                            if not isnan:
                                why.append(f"Fn[{r},{k}] = {v!r} should be NaN (padding / infinite frequency of a structural zero pole)")
        neg = z3.BoolVal(True) if why else z3.Or(*bad)
        tally.decide(e, neg, on_sat=lambda mm, why=tuple(why): {"inputs": {}, "reproduced": replay_table(cfg)[0], "detail": "; ".join(why) + " | " +
                                                                replay_table(cfg)[1], "key": "pLSCF_poles:table"}, label="pole tables")
    return tally.result(ex)


def replay_table(cfg):
    from pyoma2.functions import plscf
    ordmax, nch = cfg["ordmax"], cfg["nch"]
    rng = np.random.RandomState(3)
    Ad = [rng.randn(k + 2, nch, nch) for k in range(ordmax)]
    Bn = [rng.randn(k + 2, nch, nch) for k in range(ordmax)]
    try:
        with np.errstate(all="ignore"):
            Fns, Xis, Phis, L = plscf.pLSCF_poles(Ad, Bn, 0.01, "per", 16)
    except Exception as e:  # noqa: BLE001
        return True, f"pLSCF_poles raised {type(e).__name__}: {e}"
    rows = (ordmax + 1) * nch
    if Fns.shape != (rows, ordmax) or Phis.shape != (rows, ordmax, nch):
        return True, f"table shapes {Fns.shape} {Phis.shape}"
    for k in range(ordmax):
        A, C = plscf.rmfd2ac(Ad[k], Bn[k])
        with np.errstate(all="ignore"):
            fn, xi, phi, lam = plscf.ac2mp_poly(A, C, 0.01, "per", 16)
        fn = np.where(np.isinf(fn), np.nan, fn)
        if not np.allclose(Fns[: len(fn), k], fn, equal_nan=True) or not np.all(np.isnan(Fns[len(fn):, k])):
            return True, f"column {k} of the frequency table is not the pole list of order {k + 1} followed by NaN"
        if np.sum(~np.isnan(Fns[:, k])) > (k + 1) * nch:
            return True, f"order {k + 1}: more than {(k + 1) * nch} poles reported"
    return False, "tables as specified"


# ------------------------------------------------------------------------------------------ O1 recovery of the denominator
def unit_points(nf, sgn):
    ts = [Fraction(k, 1) / Fraction(nf, 1) * 2 + Fraction(1, 7) for k in range(nf)]
    return [((1 - t * t) / (1 + t * t), sgn * 2 * t / (1 + t * t)) for t in ts]


def run_recover(cfg, tier):
    from pyoma2.functions import plscf
    nf, sgn = cfg["Nf"], cfg["sgn"]
    pts = unit_points(nf, 1)

    def exp_stub(x):
        # the argument is sgn * 1j * omega * dt for the nf lines: return the k-th exact point (conjugated for sgn = -1)
        x = np.asarray(x)
        assert x.shape == (nf,)
        out = np.empty(nf, dtype=object)
        for k in range(nf):
            c, s = pts[k]
            out[k] = SC(z3.Q(c.numerator, c.denominator), z3.Q((sgn * s).numerator, (sgn * s).denominator))
        return SymArray(out)

    W = World(overrides={"np": NPProxy(linalg=LA(), exp=exp_stub)})
    tp = W.module(plscf)
    tally = Tally(W, ["pLSCF"])
    ex = Explorer(timeout_ms=120000, push_feas=True)
    st = {}

    def body():
        a_free, b0, b1 = fresh("a"), fresh("b0"), fresh("b1")
        if sgn == -1:      # LO: A0 = 1, A1 free
            a0, a1 = lift(1), a_free
        else:              # HI: A1 = 1, A0 free
            a0, a1 = a_free, lift(1)
        Sy = np.empty((1, 1, nf), dtype=object)
        for k in range(nf):
            c, s = pts[k]
            z = SC(z3.Q(c.numerator, c.denominator), z3.Q((sgn * s).numerator, (sgn * s).denominator))
            Sy[0, 0, k] = (toc(b0) + toc(b1) * z) / (toc(a0) + toc(a1) * z)
        st.update(a=a_free, a0=a0, a1=a1)
        return tp.pLSCF(SymArray(Sy), 1.0, 1, sgn_basf=sgn)

    for e, (kind, res) in ex.run_all(body):
        if kind == "exc":
            tally.decide(e, z3.BoolVal(True), on_sat=lambda mm: cex_rec(cfg, f"raised {type(res).__name__}: {res}"), with_side=False)
            continue
        Ad, Bn = res
        A_den = Ad[0]
        bad = [differs(A_den[0, 0, 0], st["a0"]), differs(A_den[1, 0, 0], st["a1"])]
        tally.decide(e, z3.Or(*bad), on_sat=lambda mm: cex_rec(cfg, None), label=f"denominator recovered, sgn={sgn}, Nf={nf}", with_side=False)
    return tally.result(ex)


def cex_rec(cfg, note):
    v, d = replay_rec(cfg)
    return {"inputs": {}, "reproduced": v, "detail": (note + " | " if note else "") + d, "key": "pLSCF:recovery"}


def replay_rec(cfg):
    from pyoma2.functions import plscf
    sgn = cfg["sgn"]
    nf = 32
    dt = 0.01
    rng = np.random.RandomState(9)
    for nch in (1, 2):
        n = 1
        A = rng.randn(n + 1, nch, nch) * 0.3
        if sgn == -1:
            A[0] = np.eye(nch)
        else:
            A[n] = np.eye(nch)
        B = rng.randn(n + 1, 1, nch)
        w = np.linspace(0, np.pi, nf)
        Sy = np.empty((1, nch, nf), dtype=complex)
        for k in range(nf):
            z = np.exp(sgn * 1j * w[k])
            Az = sum(A[i] * z ** i for i in range(n + 1))
            Bz = sum(B[i] * z ** i for i in range(n + 1))
            Sy[:, :, k] = Bz @ np.linalg.inv(Az)
        # the order-n model must not depend on how many higher orders are requested (ordmax >= n)
        for ordmax in (n, n + 1, n + 3):
            try:
                Ad, Bn = plscf.pLSCF(Sy, dt, ordmax, sgn_basf=sgn)
            except np.linalg.LinAlgError:
                if ordmax > n:
                    continue      # over-specified orders of an exactly rational spectrum can be singular: not judged here
                return True, f"pLSCF raised LinAlgError at ordmax = n = {n}"
            except Exception as e:  # noqa: BLE001
                return True, f"pLSCF raised {type(e).__name__}: {e}"
            if not np.allclose(Ad[n - 1], A, rtol=1e-6, atol=1e-8):
                return True, (f"sgn={sgn}, Nch={nch}, ordmax={ordmax}: order-{n} denominator {np.round(Ad[n - 1].ravel(), 5).tolist()} != true "
                              f"{np.round(A.ravel(), 5).tolist()}")
    return False, "denominator coefficients recovered"


def replay(ob, cfg, inputs):
    if ob == "O1":
        return replay_rec(cfg)
    if ob == "O2":
        return replay_comp(cfg)
    return replay_poly(cfg) if cfg["part"] == "poly" else replay_table(cfg)
