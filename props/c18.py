"""C18 — mode-shape indicators are bounded, scale-invariant and exact on collinear shapes."""
import itertools

import numpy as np
import z3

from symx.arr import NPProxy, SymArray, fresh
from symx.core import SB, SC, SV, Explorer, ShimGap, concretize, differs, lift, toc
from symx.harness import Tally, to_json
from symx.twin import World

PROPERTY = "C18"
META = {
    "explanation": "The real gen.MAC, gen.MPC, gen.MPD, gen.MCF and gen.MSF run on symbolic complex mode shapes (real "
                   "arithmetic).  z3 decides, as polynomial (in)equalities over the returned fraction terms: bounds, "
                   "shape/transposition of MAC, invariance under a symbolic non-zero complex factor, exactness on shapes "
                   "that are a complex multiple of a real vector, MSF(v, c v) = c, and that no division inside the "
                   "indicators has a zero divisor for a shape without zero-norm degeneracy (otherwise the real code "
                   "returns NaN).  O6 (rounding guard): MPD is re-run with the quotient handed to its clip replaced by any real "
                   "within 2^-40 of [-1, 1]; z3 decides per path that every arccos argument stays in [0, 1].",
    "bounds": {"quick": {"components": "2..3 (MPD: 2)", "sets": "1..2 shapes per set"},
               "thorough": {"components": "2..3 (inequalities), 2..4/5 (identities)"}},
    "stubs": ["np.linalg.eigvals of the 2x2 real/imag covariance: two symbols with sum = trace, product = determinant (MPC is "
              "symmetric in them)", "np.linalg.svd of [Re, Im] (n x 2): right singular vectors as a symbolic orthonormal 2x2 V "
              "that diagonalises M^T M with ordered diagonal", "np.arccos uninterpreted (range [0, pi]); only its argument is judged"],
    "assumptions": ["real arithmetic: 'never NaN' through rounding on nearly collinear shapes is outside the claim",
                    "MAC/MCF/MPC are judged on non-zero shapes (and, for MPC, non-constant shapes: trace of the covariance > 0)"],
}


def jobs(tier):
    out = []
    q = tier == "quick"
    nmax_id = 3 if q else 4
    for n in (2, 3):
        for name in ("MAC", "MPC", "MCF", "MPD"):
            if q and name == "MPD" and n == 3:
                continue
            out.append({"ob": "O1", "cfg": {"fn": name, "n": n}})
    for n in (2, 3):
        for k1, k2 in ((1, 1), (1, 2), (2, 1), (2, 2)):
            out.append({"ob": "O2", "cfg": {"n": n, "k1": k1, "k2": k2}})
    for n in range(2, nmax_id + 1):
        for name in ("MAC", "MCF", "MPC"):
            if name == "MPC" and n > 3:
                continue
            out.append({"ob": "O3", "cfg": {"fn": name, "n": n}})
    if not q:
        out.append({"ob": "O3", "cfg": {"fn": "MCF", "n": 5}})
    # MPD invariance is outside the claim: the SVD stub determines V only up to its contract, so two calls are unrelated
    for n in range(2, nmax_id + 2):
        for name in ("MAC", "MPC", "MCF", "MPD", "MSF"):
            if name in ("MPC", "MPD") and n > (2 if (q and name == "MPD") else 3):
                continue
            out.append({"ob": "O4", "cfg": {"fn": name, "n": n}})
    for n in (2, 3):
        for name in ("MAC", "MPD", "MSF", "MCF", "MPC"):
            if q and name == "MPD" and n == 3:
                continue
            out.append({"ob": "O5", "cfg": {"fn": name, "n": n}})
    for n in ((2,) if q else (2, 3)):
        out.append({"ob": "O6", "cfg": {"fn": "MPD", "n": n}})
    return out


class _Eig:
    """one of the two eigenvalues of a symmetric 2x2 matrix; only sum and difference of the pair are defined"""

    def __init__(self, k, tr, disc):
        self.k, self.tr, self.disc = k, tr, disc

    def __add__(self, o):
        if isinstance(o, _Eig) and o.k != self.k:
            return self.tr
        raise ShimGap("eigenvalue stub: only l0 + l1 is modelled")

    def __sub__(self, o):
        if isinstance(o, _Eig) and o.k != self.k:
            d = SV(self.disc.v, self.disc.nan, d=self.disc.d, dp=self.disc.dp)
            # a root of disc whose square is disc: `** 2` reduces to disc syntactically
            u = SV(z3.Real(f"eigdiff_{id(self) % 1000}"), self.disc.nan, sq=d)
            return u
        raise ShimGap("eigenvalue stub: only l0 - l1 is modelled")


class LA:
    """contract stubs for the two LAPACK calls inside MPC / MPD"""
    lastV = None

    def eigvals(self, S):
        """closed form for the symmetric 2x2 case through the symmetric functions of the two eigenvalues: the pair is only
        usable through l0 + l1 (= trace) and l0 - l1 (= +-sqrt(trace^2 - 4 det), sign irrelevant after squaring)"""
        S = np.asarray(S, dtype=object)
        a, b, c, d = (lift(S[0, 0]), lift(S[0, 1]), lift(S[1, 0]), lift(S[1, 1]))
        tr = a + d
        det = a * d - b * c
        disc = tr * tr - det * 4
        self.last = {"S": S, "tr": tr, "det": det, "disc": disc}
        out = np.empty(2, dtype=object)
        out[0], out[1] = _Eig(0, tr, disc), _Eig(1, tr, disc)
        return out

    def svd(self, M, *a, **k):
        M = np.asarray(M, dtype=object)
        e = Explorer.cur
        n = M.shape[0]
        c, s = z3.Real(e.fresh_name("svc")), z3.Real(e.fresh_name("svs"))
        sg = z3.Real(e.fresh_name("svsg"))
        e.add_fact(z3.And(c * c + s * s == 1, z3.Or(sg == 1, sg == -1)))
        # V = [[c, -sg*s], [s, sg*c]]  (rotation or reflection); VT = V^T
        V = [[c, -sg * s], [s, sg * c]]
        g = [[sum((lift(M[t, i]).z * lift(M[t, j]).z for t in range(n)), z3.RealVal(0)) for j in range(2)] for i in range(2)]

        def quad(u, w):
            return sum((V[i][u] * g[i][j] * V[j][w] for i in range(2) for j in range(2)), z3.RealVal(0))
        e.add_fact(z3.And(quad(0, 1) == 0, quad(0, 0) >= quad(1, 1)))
        VT = np.empty((2, 2), dtype=object)
        for i in range(2):
            for j in range(2):
                VT[i, j] = SV(V[j][i])
        self.lastV = V
        return None, None, SymArray(VT)

    def __getattr__(self, k):
        raise NotImplementedError(f"np.linalg.{k} is not modelled")


ARCCOS_LOG = []


def _arccos_hook(a):
    from symx.arr import apply_ufunc
    ARCCOS_LOG.append(a)
    return apply_ufunc(np.arccos, "__call__", (a,), {})


LA_INST = LA()


def world():
    return World(overrides={"np": NPProxy(linalg=LA_INST, arccos=_arccos_hook)})


def run(job, tier):
    import symx.core as core
    core.SOM_BLOWUP = 10 ** 6      # the degree-12 identities (MAC with 3 components) need the full expansion; jobs run in their own process
    return {"O1": run_bounds, "O2": run_shape, "O3": run_scale, "O4": run_collinear, "O5": run_divisors, "O6": run_rounding}[job["ob"]](job["cfg"], tier)


def run_rounding(cfg, tier):
    """MPD under a rounding abstraction: the quotient num/den handed to the clip is NOT the exact value (which Cauchy-Schwarz
    keeps in [-1, 1]) but any real within 2^-40 of that interval - what float division can return for (nearly) collinear
    shapes.  z3 decides per path that every arccos argument still lies in [0, 1], i.e. that the code's own clipping - not
    exact arithmetic - keeps MPD finite and inside [0, pi/2]."""
    import symx.core as core
    n = cfg["n"]
    eps = z3.Q(1, 2 ** 40)
    qs = []

    def hook(a, b):
        e = Explorer.cur
        q = z3.Real(e.fresh_name("quot"))
        e.assume(z3.And(q >= -1 - eps, q <= 1 + eps))
        qs.append(q)
        return SV(q, z3.Or(a.nan, b.nan) if (a.nan is not None and b.nan is not None) else None)

    def body(tg, st):
        del ARCCOS_LOG[:]
        del qs[:]
        LA_INST.lastV = None
        phi = fresh("phi", (n,), complex_=True)
        st["phi"] = phi
        core.DIV_HOOK = hook
        try:
            return tg.MPD(phi)
        finally:
            core.DIV_HOOK = None

    def judge(e, kind, res, st, tally):
        phi = st["phi"]
        pre = [nonzero(phi)]
        if kind == "exc":
            tally.decide(e, z3.BoolVal(True), pre, on_sat=lambda m: cex_round(cfg, f"raised {type(res).__name__}: {res}"), with_side=False)
            return
        if len(ARCCOS_LOG) != 1:
            tally.decide(e, z3.BoolVal(True), pre, on_sat=lambda m: cex_round(cfg, "MPD does not take one arccos call"), with_side=False)
            return
        args = [lift(a) for a in np.asarray(ARCCOS_LOG[0], dtype=object).ravel()]
        bad = []
        for a in args:
            num, den = frac(a)
            # den > 0 is not assumed: compare through the sign of the denominator
            bad.append(z3.Or(a.nan if a.nan is not None else z3.BoolVal(False),
                             z3.And(den > 0, z3.Or(num < 0, num > den)), z3.And(den < 0, z3.Or(num > 0, num < den))))
        tally.decide(e, z3.Or(*bad), pre, on_sat=lambda m: cex_round(cfg, None), with_side=False,
                     label=f"MPD arccos arguments stay in [0, 1] when the quotient is only known up to rounding, n={n}")

    return explore(cfg, tier, body, judge, ["MPD"])


def cex_round(cfg, note):
    v, d = replay_round(cfg)
    return {"inputs": {}, "reproduced": v, "detail": (note + " | " if note else "") + d, "key": "MPD:rounding"}


def replay_round(cfg):
    """real gen.MPD on exactly collinear shapes (complex constant times a real vector), where float division returns
    quotients a few ulp outside [-1, 1]"""
    from pyoma2.functions import gen
    rng = np.random.RandomState(2)
    n = cfg["n"]
    shapes = [(3 + 4j) * np.array([1.0, 2.0, 3.0]), (0.3 + 0.7j) * np.array([1.0, 2.0, 3.0]), (2 - 1j) * np.array([1.0, -2.0, 3.0, 0.5])]
    for _ in range(300):
        m = rng.randint(max(n, 2), 9)
        shapes.append((rng.randn() + 1j * rng.randn()) * rng.randn(m))
    for phi in shapes:
        with np.errstate(all="ignore"):
            try:
                v = gen.MPD(phi)
            except Exception as e:  # noqa: BLE001
                return True, f"MPD raised {type(e).__name__}: {e} on the collinear shape {phi.tolist()}"
        if not np.isfinite(v) or v < 0 or v > np.pi / 2:
            return True, f"MPD = {v} on the exactly collinear shape {np.round(phi, 6).tolist()}"
    return False, "finite and inside [0, pi/2] on 303 exactly collinear shapes"


def call(tg, name, *a):
    return getattr(tg, name)(*a)


def nonzero(phi):
    return z3.Or(*[z3.Or(toc(p).re != 0, toc(p).im != 0) for p in phi])


def explore(cfg, tier, body, judge, encoded):
    from pyoma2.functions import gen
    W = world()
    tg = W.module(gen)
    tally = Tally(W, encoded)
    ex = Explorer(timeout_ms=20000 if tier == "quick" else 120000, max_paths=2000, feas_timeout_ms=5000)
    st = {}
    for e, (kind, res) in ex.run_all(lambda: body(tg, st)):
        judge(e, kind, res, st, tally)
    return tally.result(ex)


def frac(x):
    """(numerator, denominator) z3 terms of a real SV"""
    x = lift(x)
    return x.v, (x.d if x.d is not None else z3.RealVal(1))


# ------------------------------------------------------------------------------------------ specification-side forms
def mac_spec(x, a):
    num = sum((toc(xi).conjugate() * toc(ai) for xi, ai in zip(x, a)), toc(0))
    N = num.abs2()
    D = sum((toc(xi).abs2() for xi in x), lift(0)) * sum((toc(ai).abs2() for ai in a), lift(0))
    return N, D


def mcf_spec(phi):
    re = [toc(p).real for p in phi]
    im = [toc(p).imag for p in phi]
    Sxx = sum((r * r for r in re), lift(0))
    Syy = sum((i * i for i in im), lift(0))
    Sxy = sum((r * i for r, i in zip(re, im)), lift(0))
    P = (Sxx - Syy) * (Sxx - Syy) + Sxy * Sxy * 4
    Q = Sxx + Syy
    return P, Q, Sxx, Syy, Sxy


def mpc_spec(phi):
    n = len(phi)
    re = [toc(p).real for p in phi]
    im = [toc(p).imag for p in phi]
    mr = sum(re, lift(0)) / n
    mi = sum(im, lift(0)) / n
    cr = [r - mr for r in re]
    ci = [i - mi for i in im]
    cxx = sum((r * r for r in cr), lift(0)) / (n - 1)
    cyy = sum((i * i for i in ci), lift(0)) / (n - 1)
    cxy = sum((r * i for r, i in zip(cr, ci)), lift(0)) / (n - 1)
    tr = cxx + cyy
    det = cxx * cyy - cxy * cxy
    disc = tr * tr - det * 4
    return tr, det, disc


def mpd_args(phi, e=None):
    """(ok, specification-side arccos arguments, the code's arccos arguments, V entries of the SVD stub).
    Components of zero magnitude carry zero weight and may be left out by the code: on each path the components kept
    are those the path condition forces to be non-zero."""
    if len(ARCCOS_LOG) != 1 or LA_INST.lastV is None:
        return False, None, None, None
    code = list(np.asarray(ARCCOS_LOG[0], dtype=object).ravel())
    keep = list(range(len(phi)))
    if len(code) != len(phi) and e is not None:
        keep = [i for i, p in enumerate(phi) if e.query(toc(p).abs2().v == 0, with_side=False)[0] == z3.unsat]
    if len(code) != len(keep):
        return False, None, None, None
    V = LA_INST.lastV
    v01, v11 = SV(V[0][1]), SV(V[1][1])
    spec = []
    for i in keep:
        c = toc(phi[i])
        num = c.real * v11 - c.imag * v01
        den = (v01 ** 2 + v11 ** 2).sqrt() * abs(c)
        spec.append(abs(num / den))
    return True, spec, code, V


def clean(tally, neg, label, timeout_ms=60000, on_sat=None):
    """a query over the specification-side polynomials only (no path condition, no auxiliary definitions)"""
    sol = z3.Solver()
    sol.set("timeout", timeout_ms)
    sol.add(neg)
    tally.obligations += 1
    r = sol.check()
    if r == z3.unsat:
        tally.discharged += 1
    elif r == z3.unknown:
        tally.inconclusive += 1
    elif on_sat is not None:
        c = on_sat(sol.model())
        if c is not None:
            tally.cex.append(c)
    return str(r)


# ------------------------------------------------------------------------------------------ O1 bounds
def run_bounds(cfg, tier):
    name, n = cfg["fn"], cfg["n"]

    def body(tg, st):
        phi = fresh("p", (n,), complex_=True)
        st["phi"] = phi
        ARCCOS_LOG.clear()
        LA_INST.lastV = None
        if name == "MAC":
            psi = fresh("q", (n,), complex_=True)
            st["psi"] = psi
            return tg.MAC(phi, psi)
        return getattr(tg, name)(phi)

    def judge(e, kind, res, st, tally):
        phi = st["phi"]
        pre = [nonzero(phi)] + ([nonzero(st["psi"])] if name == "MAC" else [])
        if kind == "exc":
            tally.decide(e, z3.BoolVal(True), pre, on_sat=lambda m: cexf(cfg, st, m, f"raised {type(res).__name__}: {res}"))
            return
        if name == "MPD":
            # MPD = sum(w * arccos(|num/den|)) / sum(w) with w >= 0: in [0, pi/2] iff every arccos argument is in [0, 1]
            ok, spec_args, code_args, V = mpd_args(phi, e)
            if not ok:
                tally.decide(e, z3.BoolVal(True), pre, on_sat=lambda m: cexf(cfg, st, m, "MPD does not take one arccos per component"))
                return
            bad = [differs(c, sp) for c, sp in zip(code_args, spec_args)]
            tally.decide(e, z3.Or(*bad), pre, on_sat=lambda m: cexf(cfg, st, m, None), with_side=False,
                         label=f"MPD arccos argument == |Re*V11 - Im*V01| / (|v2| |phi_i|), n={n}")
            for p in phi:
                c = toc(p)
                lhs = (c.re * V[1][1] - c.im * V[0][1]) * (c.re * V[1][1] - c.im * V[0][1])
                rhs = (V[0][1] * V[0][1] + V[1][1] * V[1][1]) * (c.re * c.re + c.im * c.im)
                clean(tally, lhs > rhs, "2-D Cauchy-Schwarz: the arccos argument is <= 1")
            return
        val = res[0] if name == "MCF" else res
        if name == "MAC":
            N, D = mac_spec(phi, st["psi"])
            tally.decide(e, differs(val, N / D), pre, on_sat=lambda m: cexf(cfg, st, m, None), label=f"MAC == |x^H a|^2/(|x|^2 |a|^2), n={n}")
            # Cauchy-Schwarz through the Lagrange identity |x|^2|a|^2 - |x^H a|^2 == sum_{i<j} |x_i a_j - x_j a_i|^2
            sq_terms = []
            psi = st["psi"]
            for i in range(n):
                for j in range(i + 1, n):
                    t = toc(phi[i]) * toc(psi[j]) - toc(phi[j]) * toc(psi[i])
                    sq_terms += [t.re, t.im]
            lag = SV(sum((t * t for t in sq_terms), z3.RealVal(0)))
            tally.decide(e, differs(D - N, lag), [], with_side=False, label=f"Lagrange identity, n={n}")
            ys = [z3.Real(f"lag_y{k}") for k in range(len(sq_terms))]
            # for all reals y_k: sum y_k^2 >= 0 (instantiated at y_k := the real/imag parts above); and |x^H a|^2 >= 0
            clean(tally, z3.Or(sum((y * y for y in ys), z3.RealVal(0)) < 0, N.v < 0), f"sums of squares are >= 0, n={n}")
        elif name == "MCF":
            P, Q, Sxx, Syy, Sxy = mcf_spec(phi)
            tally.decide(e, differs(val, lift(1) - P / (Q * Q)), pre, on_sat=lambda m: cexf(cfg, st, m, None), label=f"MCF closed form, n={n}")
            clean(tally, z3.Or(P.v < 0, P.v > Q.v * Q.v), f"0 <= (Sxx-Syy)^2+4Sxy^2 <= (Sxx+Syy)^2, n={n}")
        else:
            tr, det, disc = mpc_spec(phi)
            tally.decide(e, differs(val, disc / (tr * tr)), pre + [tr.v != 0], on_sat=lambda m: cexf(cfg, st, m, None),
                         label=f"MPC == (tr^2 - 4 det)/tr^2 of the real/imag covariance, n={n}")
            clean(tally, z3.Or(disc.z < 0, det.z < 0), f"0 <= tr^2-4det and det >= 0 (so MPC in [0,1]), n={n}")

    return explore(cfg, tier, body, judge, [cfg["fn"]])


def arccos_args(term):
    """arguments of every uf_arccos application inside the z3 term of an SV"""
    t = lift(term)
    out, seen, stack = [], set(), [t.v] + ([t.d] if t.d is not None else [])
    while stack:
        x = stack.pop()
        if x.get_id() in seen:
            continue
        seen.add(x.get_id())
        if z3.is_app(x) and x.decl().name() == "uf_arccos":
            out.append(x.arg(0))
        stack.extend(x.children())
    return out


def cexf(cfg, st, m, note):
    inputs = {k: concretize(m, v) for k, v in st.items() if k in ("phi", "psi", "c", "r", "X", "A")}
    viol, detail, key = replay_fn(cfg, inputs)
    return {"inputs": to_json(inputs), "reproduced": viol, "detail": (note + " | " if note else "") + detail, "key": key}


def replay_fn(cfg, inputs, ob=None):
    from pyoma2.functions import gen
    name = cfg.get("fn", "MAC")
    with np.errstate(all="ignore"):
        try:
            if "X" in inputs:
                X, A = np.array(inputs["X"]).astype(complex), np.array(inputs["A"]).astype(complex)
                M1, M2 = gen.MAC(X, A), gen.MAC(A, X)
                k1, k2 = (X.shape[1] if X.ndim > 1 else 1), (A.shape[1] if A.ndim > 1 else 1)
                if np.shape(np.atleast_2d(M1)) != (k1, k2) and not (k1 == k2 == 1 and np.ndim(M1) == 0):
                    return True, f"MAC of {k1} x {k2} shapes has shape {np.shape(M1)}", "MAC:shape"
                if not np.allclose(np.atleast_2d(M1), np.atleast_2d(M2).T, rtol=1e-9, atol=1e-12):
                    return True, "MAC(X, A) != MAC(A, X)^T", "MAC:transposition"
                return False, "shape/transposition ok", None
            phi = np.array(inputs["phi"]).astype(complex) if "phi" in inputs else None
            if "r" in inputs:   # collinear: phi = c * r
                r = np.array(inputs["r"], dtype=float)
                c = complex(inputs["c"])
                phi = c * r
                if name == "MAC":
                    v = gen.MAC(phi, r.astype(complex))
                    ok = abs(v - 1) < 1e-9
                elif name == "MPC":
                    v = gen.MPC(phi)
                    ok = abs(v - 1) < 1e-9
                elif name == "MCF":
                    v = gen.MCF(phi)[0]
                    ok = abs(v) < 1e-9
                elif name == "MPD":
                    v = gen.MPD(phi)
                    ok = abs(v) < 1e-6
                else:
                    cr = float(np.real(c))
                    v = gen.MSF(r.astype(complex) if False else phi / c * 1.0, cr * (phi / c))[0]
                    ok = abs(v - cr) < 1e-9 * (1 + abs(cr))
                if not ok or np.isnan(v):
                    return True, f"{name} on phi = ({c:.4g}) * {np.round(r, 4).tolist()} gives {v}", f"{name}:collinear"
                return False, "collinear exactness ok", None
            if "c" in inputs:   # scale invariance
                c = complex(inputs["c"])
                if name == "MAC":
                    psi = np.array(inputs["psi"]).astype(complex)
                    a, b = gen.MAC(phi, psi), gen.MAC(c * phi, psi)
                    b2 = gen.MAC(phi, c * psi)
                    ok = abs(a - b) < 1e-9 and abs(a - b2) < 1e-9
                    v = (a, b, b2)
                else:
                    f = getattr(gen, name)
                    # the model's factor, then the same direction at the ends of the property's range of moduli [1e-6, 1e6]
                    # (an absolute constant hidden in an indicator only shows at small or large amplitude)
                    ok, v = True, None
                    for fac in (1.0, 1e-3 / abs(c), 1e-5 / abs(c), 1e-6 / abs(c), 1e4 / abs(c), 1e6 / abs(c)):
                        c2 = c * fac
                        a, b = f(phi), f(c2 * phi)
                        a, b = (a[0], b[0]) if name == "MCF" else (a, b)
                        if not abs(a - b) < 1e-7 * (1 + abs(a)):
                            ok, v, c = False, (a, b), c2
                            break
                if not ok:
                    return True, f"{name} changes under the factor {c:.4g}: {v} for phi={np.round(phi, 4).tolist()}", f"{name}:scale"
                return False, "scale invariance ok", None
            # bounds / divisors
            if name == "MAC":
                psi = np.array(inputs["psi"]).astype(complex)
                v = gen.MAC(phi, psi)
            elif name == "MSF":
                psi = np.array(inputs["psi"]).astype(complex) if "psi" in inputs else 2.0 * phi
                v = gen.MSF(phi, psi)[0]
            else:
                v = getattr(gen, name)(phi)
                v = v[0] if name == "MCF" else v
            hi = np.pi / 2 if name == "MPD" else 1.0
            if np.isnan(v) or np.isinf(v):
                return True, f"{name}({np.round(phi, 4).tolist()}) = {v}", f"{name}:nan"
            if name != "MSF" and not (-1e-12 <= v <= hi + 1e-12):
                return True, f"{name}({np.round(phi, 4).tolist()}) = {v} outside [0, {hi:.4g}]", f"{name}:bounds"
            return False, "bounded and finite", None
        except Exception as e:  # noqa: BLE001
            return True, f"{name} raised {type(e).__name__}: {e}", f"{name}:raises"


# ------------------------------------------------------------------------------------------ O2 shape / transposition
def run_shape(cfg, tier):
    n, k1, k2 = cfg["n"], cfg["k1"], cfg["k2"]

    def body(tg, st):
        X = fresh("X", (n, k1), complex_=True) if k1 > 1 else fresh("X", (n,), complex_=True)
        A = fresh("A", (n, k2), complex_=True) if k2 > 1 else fresh("A", (n,), complex_=True)
        st["X"], st["A"] = X, A
        return tg.MAC(X, A), tg.MAC(A, X)

    def judge(e, kind, res, st, tally):
        if kind == "exc":
            tally.decide(e, z3.BoolVal(True), on_sat=lambda m: cexf(cfg, st, m, f"raised {type(res).__name__}: {res}"))
            return
        M1, M2 = res
        if k1 == 1 and k2 == 1:
            ok_shape = isinstance(M1, SV) and isinstance(M2, SV)
            M1a = M2a = None
        else:
            M1a, M2a = np.atleast_2d(np.asarray(M1, dtype=object)), np.atleast_2d(np.asarray(M2, dtype=object))
            ok_shape = M1a.shape == (k1, k2) and M2a.shape == (k2, k1)
        if not ok_shape:
            tally.decide(e, z3.BoolVal(True), on_sat=lambda m: cexf(cfg, st, m, f"shape {np.shape(M1)}"), label="shape")
            return
        bad = [differs(M1a[i, j], M2a[j, i]) for i in range(k1) for j in range(k2)] if not (k1 == k2 == 1) else [differs(M1, M2)]
        tally.decide(e, z3.Or(*bad), on_sat=lambda m: cexf(cfg, st, m, None), label=f"MAC(X,A) == MAC(A,X)^T ({k1}x{k2}, n={n})")

    return explore(cfg, tier, body, judge, ["MAC"])


# ------------------------------------------------------------------------------------------ O3 scale invariance
def run_scale(cfg, tier):
    name, n = cfg["fn"], cfg["n"]

    def body(tg, st):
        phi = fresh("p", (n,), complex_=True)
        c = fresh("c", complex_=True)
        st["phi"], st["c"] = phi, c
        if name == "MAC":
            psi = fresh("q", (n,), complex_=True)
            st["psi"] = psi
            return tg.MAC(phi, psi), tg.MAC(phi * c, psi), tg.MAC(phi, psi * c)
        f = getattr(tg, name)
        return f(phi), f(phi * c)

    def judge(e, kind, res, st, tally):
        phi, c = st["phi"], st["c"]
        pre = [nonzero(phi), z3.Or(c.re != 0, c.im != 0)] + ([nonzero(st["psi"])] if name == "MAC" else [])
        if kind == "exc":
            tally.decide(e, z3.BoolVal(True), pre, on_sat=lambda m: cexf(cfg, st, m, f"raised {type(res).__name__}: {res}"))
            return
        if name == "MPD":
            # compare the arccos arguments pairwise: |num/den| is unchanged (they are weighted by |phi|/sum|phi|, also unchanged)
            a0, a1 = arccos_args(res[0]), arccos_args(res[1])
            if len(a0) != len(a1) or not a0:
                tally.decide(e, z3.BoolVal(True), pre, on_sat=lambda m: cexf(cfg, st, m, "arccos structure differs"))
                return
            # arguments appear in component order in both terms
            neg = z3.Or(*[x * x != y * y for x, y in zip(sorted(a0, key=str), sorted(a1, key=str))])
            tally.decide(e, neg, pre, on_sat=lambda m: cexf(cfg, st, m, None), label=f"MPD arccos arguments invariant, n={n}", timeout_ms=60000)
            return
        vals = [r[0] if name == "MCF" else r for r in res]
        bad = [differs(vals[0], v) for v in vals[1:]]
        tally.decide(e, z3.Or(*bad), pre, on_sat=lambda m: cexf(cfg, st, m, None), label=f"{name} invariant under complex factor, n={n}")

    return explore(cfg, tier, body, judge, [cfg["fn"]])


# ------------------------------------------------------------------------------------------ O4 collinear exactness
def run_collinear(cfg, tier):
    name, n = cfg["fn"], cfg["n"]

    def body(tg, st):
        r = fresh("r", (n,))
        c = fresh("c", complex_=True)
        st["r"], st["c"] = r, c
        phi = SymArray(np.array([c * r[i] for i in range(n)], dtype=object))
        rc = SymArray(np.array([toc(r[i]) for i in range(n)], dtype=object))
        st["phi_c"] = phi
        ARCCOS_LOG.clear()
        LA_INST.lastV = None
        if name == "MAC":
            return tg.MAC(phi, rc)
        if name == "MSF":
            cr = SV(c.re)
            v = fresh("v", (n,), complex_=True)
            st["phi"] = v
            return tg.MSF(v, v * cr)
        return getattr(tg, name)(phi)

    def judge(e, kind, res, st, tally):
        r, c = st["r"], st["c"]
        pre = [z3.Or(*[x.v != 0 for x in r]), z3.Or(c.re != 0, c.im != 0)]
        if kind == "exc":
            tally.decide(e, z3.BoolVal(True), pre, on_sat=lambda m: cexf(cfg, st, m, f"raised {type(res).__name__}: {res}"))
            return
        if name == "MPD":
            phi = st["phi_c"]
            ok, spec_args, code_args, V = mpd_args(phi, e)
            if not ok:
                tally.decide(e, z3.BoolVal(True), pre, on_sat=lambda m: cexf(cfg, st, m, "MPD does not take one arccos per component"))
                return
            bad = [differs(cc, sp) for cc, sp in zip(code_args, spec_args)]
            tally.decide(e, z3.Or(*bad), pre, on_sat=lambda m: cexf(cfg, st, m, None), with_side=False,
                         label=f"MPD arccos argument == |Re*V11 - Im*V01| / (|v2| |phi_i|), n={n}")
            al, be = c.re, c.im
            # (1) under the SVD contract the second right singular vector is orthogonal to (Re c, Im c)
            tally.decide(e, al * V[0][1] + be * V[1][1] != 0, pre, on_sat=lambda m: cexf(cfg, st, m, None), with_side=False,
                         label=f"SVD contract => v2 orthogonal to (Re c, Im c), n={n}", timeout_ms=20000 if tier == "quick" else 120000)
            # (2) 2-D Lagrange identity: then |Re*V11 - Im*V01|^2 == |v2|^2 |c|^2, i.e. every argument with r_i != 0 equals 1
            lhs = SV((al * V[1][1] - be * V[0][1]) * (al * V[1][1] - be * V[0][1]) + (al * V[0][1] + be * V[1][1]) * (al * V[0][1] + be * V[1][1]))
            rhs = SV((V[0][1] * V[0][1] + V[1][1] * V[1][1]) * (al * al + be * be))
            tally.decide(e, differs(lhs, rhs), [], with_side=False, label="2-D Lagrange identity")
            return
        if name == "MSF":
            v = st["phi"]
            s2 = sum((toc(x) * toc(x) for x in v), toc(0))
            pre = [z3.Or(s2.re != 0, s2.im != 0)]       # the library's (non-conjugated) denominator
            tally.decide(e, differs(res[0], SV(c.re)), pre, on_sat=lambda m: cexf(cfg, st, m, None), label=f"MSF(v, c v) == c, n={n}")
            return
        if name == "MPC":
            pre = pre + [z3.Or(*[r[i].v != r[j].v for i in range(n) for j in range(i + 1, n)])]   # non-constant shape
        want = {"MAC": 1, "MPC": 1, "MCF": 0}[name]
        val = res[0] if name == "MCF" else res
        tally.decide(e, differs(val, want), pre, on_sat=lambda m: cexf(cfg, st, m, None), label=f"{name} == {want} on collinear shapes, n={n}")

    return explore(cfg, tier, body, judge, [cfg["fn"]])


# ------------------------------------------------------------------------------------------ O5 no NaN through zero divisors
def run_divisors(cfg, tier):
    """finite results: can a divisor inside the indicator vanish for an admissible shape?  (a zero divisor is a NaN/inf in
    the real code).  Admissible: non-zero shape; for MSF non-zero vector."""
    name, n = cfg["fn"], cfg["n"]

    def body(tg, st):
        phi = fresh("p", (n,), complex_=True)
        st["phi"] = phi
        if name == "MAC":
            psi = fresh("q", (n,), complex_=True)
            st["psi"] = psi
            return tg.MAC(phi, psi)
        if name == "MSF":
            return tg.MSF(phi, phi * 2.0)
        return getattr(tg, name)(phi)

    def judge(e, kind, res, st, tally):
        phi = st["phi"]
        pre = [nonzero(phi)] + ([nonzero(st["psi"])] if name == "MAC" else [])
        if name == "MPC":
            # a constant shape has zero covariance: excluded (0/0 is inherent to the definition)
            re = [toc(p).re for p in phi]
            im = [toc(p).im for p in phi]
            pre.append(z3.Or(*[z3.Or(re[i] != re[j], im[i] != im[j]) for i in range(n) for j in range(i + 1, n)]))
        if kind == "exc":
            tally.decide(e, z3.BoolVal(True), pre, on_sat=lambda m: cexf(cfg, st, m, f"raised {type(res).__name__}: {res}"))
            return
        sides = list(e.side)
        neg = z3.Or(*[z3.Not(s) for s in sides]) if sides else z3.BoolVal(False)
        # model-search hints (a model found under a hint is still a model of the plain query): a zero component; an
        # isotropic vector
        hints = [z3.And(toc(phi[0]).re == 0, toc(phi[0]).im == 0, toc(phi[1]).re == 1, toc(phi[1]).im == 0),
                 z3.And(toc(phi[0]).re == 1, toc(phi[0]).im == 0, toc(phi[1]).re == 0, toc(phi[1]).im == 1,
                        *[z3.And(toc(p).re == 0, toc(p).im == 0) for p in phi[2:]])]
        found = False
        for h in hints:
            r, m = e.query(*pre, neg, h, with_side=False, timeout_ms=10000)
            if r == z3.sat:
                tally.obligations += 1
                tally.reach = True
                c = cexf(cfg, st, m, None)
                c["label"] = f"{name}: zero divisor for an admissible shape"
                tally.cex.append(c)
                found = True
                break
        if not found:
            tally.decide(e, neg, pre, on_sat=lambda m: cexf(cfg, st, m, None), label=f"{name}: no zero divisor for admissible shapes, n={n}",
                         with_side=False)

    return explore(cfg, tier, body, judge, [cfg["fn"]])


def replay(ob, cfg, inputs):
    if ob == "O6":
        return replay_round(cfg)
    v, d, _ = replay_fn(cfg, inputs)
    return v, d
