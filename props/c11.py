"""C11 — modal parameter extraction returns the requested pole, whole and only if close."""
import itertools

import numpy as np
import z3

from symx.arr import SymArray, fresh
from symx.core import SB, SC, SV, Explorer, concretize, differs, lift
from symx.harness import Tally, to_json
from symx.twin import World

PROPERTY = "C11"
ATOL = 1e-8
from fractions import Fraction  # noqa: E402
ATOL_Q = z3.Q(*Fraction(1e-8).as_integer_ratio())   # the exact double NumPy's isclose uses
META = {
    "explanation": "The real ssi.SSI_mpe and plscf.pLSCF_mpe (and the mpe methods of SSIdat / pLSCF on carriers) run on "
                   "symbolic pole tables (any NaN pattern, symbolic 0/1 labels, optional covariance tables), symbolic "
                   "ascending requested frequencies with disjoint tolerance bands and a symbolic rtol; order is every int, "
                   "every list of ints and 'find_min'.  Per path z3 compares the returned arrays with the specification "
                   "(nearest retained pole of that order; whole pole; returned iff within atol+rtol*f of THAT request; "
                   "find_min: lowest order where every request has exactly one stable pole in its band).",
    "bounds": {"quick": {"explicit order": "tables 3x2 and 2x3, 1..2 requests", "find_min": "2x2 (1..2 requests), 3x2 (1 request)"},
               "thorough": {"explicit order": "3x3, 1..2 requests", "find_min": "3x2 and 2x3 with 2 requests"}},
    "stubs": ["tqdm -> identity; logger -> null"],
    "assumptions": ["requested frequencies ascending, positive, with disjoint tolerance bands (as in the property)",
                    "0 < rtol < 0.5", "every explicitly requested order column contains at least one retained pole",
                    "closeness is NumPy's isclose formula |pole - f| <= 1e-8 + rtol*f; values exactly at the band edge are not judged "
                    "(soundness non-strict, completeness strict)", "retained poles are positive frequencies"],
}


def jobs(tier):
    out = []
    fns = ("SSI", "pLSCF")
    exp_shapes = [(3, 2), (2, 3)] if tier == "quick" else [(3, 2), (2, 3), (3, 3)]
    for fn in fns:
        for shp in exp_shapes:
            for nreq in (1, 2):
                covs = (False, True) if (fn == "SSI" and shp == (3, 2)) else (False,)
                for cov in covs:
                    for order in range(shp[1]):
                        out.append({"ob": "O123", "cfg": {"fn": fn, "shape": list(shp), "nreq": nreq, "order": order, "cov": cov}})
                    if nreq == 2:
                        for order in itertools.product(range(shp[1]), repeat=2):
                            out.append({"ob": "O123", "cfg": {"fn": fn, "shape": list(shp), "nreq": nreq, "order": list(order), "cov": cov}})
                    else:
                        out.append({"ob": "O123", "cfg": {"fn": fn, "shape": list(shp), "nreq": 1, "order": [shp[1] - 1], "cov": cov}})
    fm = [((2, 2), 1), ((2, 2), 2), ((3, 2), 1)] if tier == "quick" else [((2, 2), 1), ((2, 2), 2), ((3, 2), 1), ((3, 2), 2), ((2, 3), 2)]
    for fn in fns:
        for shp, nreq in fm:
            out.append({"ob": "O4", "cfg": {"fn": fn, "shape": list(shp), "nreq": nreq, "cov": False}})
    for cls in ("SSIdat", "pLSCF"):
        out.append({"ob": "O5", "cfg": {"cls": cls}})
    return out


def run(job, tier):
    if job["ob"] == "O5":
        return run_wrappers(job["cfg"], tier)
    return run_mpe(job["cfg"], tier, find_min=(job["ob"] == "O4"))


def absz(t):
    return z3.If(t >= 0, t, -t)


def sym_inputs(cfg):
    R, C = cfg["shape"]
    nch = 2
    n0 = [[z3.Bool(f"nan_{i}_{j}") for j in range(C)] for i in range(R)]

    def tab(name, complex_=False, extra=()):
        a = np.empty((R, C) + tuple(extra), dtype=object)
        for ix in np.ndindex(a.shape):
            nm = name + "_" + "_".join(map(str, ix))
            flag = n0[ix[0]][ix[1]]
            a[ix] = SC(z3.Real(nm + "r"), z3.Real(nm + "i"), flag) if complex_ else SV(z3.Real(nm), flag)
        return SymArray(a)

    T = {"Fn": tab("Fn"), "Xi": tab("Xi"), "Phi": tab("Phi", True, (nch,)), "n0": n0}
    if cfg.get("cov"):
        T.update(Fn_cov=tab("Fncov"), Xi_cov=tab("Xicov"), Phi_cov=tab("Phicov", False, (nch,)))
    lab = np.empty((R, C), dtype=object)
    for i in range(R):
        for j in range(C):
            lab[i, j] = SV(z3.Real(f"Lab_{i}_{j}"))
    T["Lab"] = SymArray(lab)
    T["req"] = [fresh(f"f_{m}") for m in range(cfg["nreq"])]
    T["rtol"] = fresh("rtol")
    return T


def base_assumptions(cfg, T):
    R, C = cfg["shape"]
    a = []
    rt = T["rtol"].v
    a += [rt > 0, rt < z3.Q(1, 2)]
    atol = ATOL_Q
    for m, f in enumerate(T["req"]):
        a.append(f.v > z3.Q(1, 10))
        if m:
            a.append(T["req"][m - 1].v * (1 + rt) + atol < f.v * (1 - rt) - atol)
    for i in range(R):
        for j in range(C):
            a.append(z3.Or(T["n0"][i][j], T["Fn"][i, j].v > 0))
            a.append(z3.Or(T["Lab"][i, j].v == 0, T["Lab"][i, j].v == 1))
    return a


def call(tmod, cfg, T, order):
    kw = {}
    if cfg["fn"] == "SSI":
        if cfg.get("cov"):
            kw = dict(Fn_cov=T["Fn_cov"], Xi_cov=T["Xi_cov"], Phi_cov=T["Phi_cov"])
        return tmod.SSI_mpe(list(T["req"]), T["Fn"], T["Xi"], T["Phi"], order, Lab=T["Lab"], rtol=T["rtol"], **kw)
    r = tmod.pLSCF_mpe(list(T["req"]), T["Fn"], T["Xi"], T["Phi"], order, Lab=T["Lab"], rtol=T["rtol"])
    return tuple(r) + (None, None, None)


def pole_eq(out, j, T, r, c, cov):
    Fn, Xi, Phi, _, Fc, Xc, Pc = out
    nch = T["Phi"].shape[2]
    parts = [z3.Not(differs(Fn[j], T["Fn"][r, c])), z3.Not(differs(Xi[j], T["Xi"][r, c]))]
    parts += [z3.Not(differs(Phi[k, j], T["Phi"][r, c, k])) for k in range(nch)]
    if cov:
        parts += [z3.Not(differs(Fc[j], T["Fn_cov"][r, c])), z3.Not(differs(Xc[j], T["Xi_cov"][r, c]))]
        parts += [z3.Not(differs(Pc[k, j], T["Phi_cov"][r, c, k])) for k in range(nch)]
    return z3.And(*parts)


def shapes_ok(out, k, nch, cov):
    Fn, Xi, Phi, _, Fc, Xc, Pc = out
    if k == 0:
        return True
    ok = np.shape(Fn) == (k,) and np.shape(Xi) == (k,) and np.shape(Phi) == (nch, k)
    if cov:
        ok = ok and np.shape(Fc) == (k,) and np.shape(Xc) == (k,) and np.shape(Pc) == (nch, k)
    return ok


def run_mpe(cfg, tier, find_min):
    import pyoma2.functions.plscf as fplscf
    import pyoma2.functions.ssi as fssi
    W = World()
    tmod = W.module(fssi if cfg["fn"] == "SSI" else fplscf)
    R, C = cfg["shape"]
    nch = 2
    tally = Tally(W, ["SSI_mpe", "pLSCF_mpe"])
    ex = Explorer(timeout_ms=20000 if tier == "quick" else 60000, max_paths=100000, max_seconds=900 if tier == "quick" else 3000)
    st = {}
    order = "find_min" if find_min else cfg["order"]
    orders = None if find_min else (order if isinstance(order, list) else [order] * cfg["nreq"])

    def body():
        T = sym_inputs(cfg)
        st["T"] = T
        # the tables as handed over (cell objects), for the frame condition: extraction must not write into its inputs
        st["T0"] = {k: np.array(T[k], dtype=object).view(np.ndarray).copy() for k in T if isinstance(T[k], np.ndarray)}
        for a in base_assumptions(cfg, T):
            Explorer.cur.assume(a)
        if orders is not None:
            for c in set(orders):
                Explorer.cur.assume(z3.Or(*[z3.Not(T["n0"][i][c]) for i in range(R)]))
        return call(tmod, cfg, T, order if not isinstance(order, list) else list(order))

    for e, (kind, out) in ex.run_all(body):
        T = st["T"]
        if kind == "exc":
            tally.decide(e, z3.BoolVal(True), on_sat=lambda m: cex(cfg, T, m, order, f"raised {out!r}"), label="no exception expected")
            continue
        touched = [f"{k}{list(ix)}" for k, a0 in st["T0"].items() for ix in np.ndindex(a0.shape)
                   if np.asarray(T[k], dtype=object).view(np.ndarray)[ix] is not a0[ix]]
        if touched:
            for k, a0 in st["T0"].items():      # judge the rest against the tables as they were handed over
                T[k] = SymArray(a0)
            tally.decide(e, z3.BoolVal(True), on_sat=lambda m: cex(cfg, T, m, order, f"input tables modified by the call: {touched[:4]}"),
                         label="inputs are not modified")
            continue
        Fn = out[0]
        k = int(np.shape(Fn)[0]) if np.ndim(Fn) else 0
        if np.ndim(Fn) != 1 or not shapes_ok(out, k, nch, cfg.get("cov")):
            tally.decide(e, z3.BoolVal(True), on_sat=lambda m: cex(cfg, T, m, order, "malformed output shapes"), label="shapes")
            continue
        tol = [(T["rtol"].v * f.v, ATOL_Q + T["rtol"].v * f.v) for f in T["req"]]   # (must-band, may-band)
        if not find_min:
            spec = spec_explicit(cfg, T, out, k, orders, tol)
        else:
            spec = spec_find_min(cfg, T, out, k, tol)
        tally.decide(e, z3.Not(spec), on_sat=lambda m: cex(cfg, T, m, order, None), label=f"order={order} returned {k} modes")
    return tally.result(ex)


def spec_explicit(cfg, T, out, k, orders, tol):
    R, C = cfg["shape"]
    n = cfg["nreq"]
    order_out = out[3]
    if isinstance(cfg["order"], list):
        oo = list(np.asarray(order_out).ravel())
        if [int(x) for x in oo] != list(cfg["order"]):
            return z3.BoolVal(False)
    else:
        if not (isinstance(order_out, (int, np.integer)) and int(order_out) == cfg["order"]) and not (k == 0):
            return z3.BoolVal(False)

    def N(m, r):
        c = orders[m]
        f = T["req"][m].v
        return z3.And(z3.Not(T["n0"][r][c]), *[z3.Or(T["n0"][q][c], absz(T["Fn"][r, c].v - f) <= absz(T["Fn"][q, c].v - f))
                                                for q in range(R)])

    def close(m, strict):
        c = orders[m]
        f = T["req"][m].v
        alts = []
        for r in range(R):
            d = absz(T["Fn"][r, c].v - f)
            alts.append(z3.And(N(m, r), d < tol[m][0] if strict else d <= tol[m][1]))
        return z3.Or(*alts)

    alts = []
    for S in itertools.combinations(range(n), k):
        parts = [close(m, False) for m in S] + [z3.Not(close(m, True)) for m in range(n) if m not in S]
        for j, m in enumerate(S):
            parts.append(z3.Or(*[z3.And(N(m, r), pole_eq(out, j, T, r, orders[m], cfg.get("cov"))) for r in range(R)]))
        alts.append(z3.And(*parts) if parts else z3.BoolVal(True))
    return z3.Or(*alts) if alts else z3.BoolVal(False)


def spec_find_min(cfg, T, out, k, tol):
    R, C = cfg["shape"]
    n = cfg["nreq"]
    order_out = out[3]

    def inb(m, r, c, strict):
        d = absz(T["Fn"][r, c].v - T["req"][m].v)
        return z3.And(z3.Not(T["n0"][r][c]), T["Lab"][r, c].v == 1, d < tol[m][0] if strict else d <= tol[m][1])

    def exactly_one(m, c, strict_in, strict_others):
        # "exactly one stable pole": poles with identical frequency (conjugate pairs) count once
        alts = []
        for r in range(R):
            alts.append(z3.And(inb(m, r, c, strict_in), *[z3.Or(z3.Not(inb(m, q, c, not strict_others)),
                                                                  T["Fn"][q, c].v == T["Fn"][r, c].v) for q in range(R) if q != r]))
        return z3.Or(*alts)

    def qualifies_strict(c):       # certainly qualifies: exactly one pole strictly inside, no other even on the edge
        return z3.And(*[exactly_one(m, c, True, True) for m in range(n)])

    def qualifies_weak(c):         # possibly qualifies
        return z3.And(*[exactly_one(m, c, False, False) for m in range(n)])

    if order_out is None:
        if k != 0:
            return z3.BoolVal(False)
        return z3.And(*[z3.Not(qualifies_strict(c)) for c in range(C)])
    if not isinstance(order_out, (int, np.integer)):
        return z3.BoolVal(False)
    c = int(order_out)
    if not (0 <= c < C) or k != n:
        return z3.BoolVal(False)
    parts = [qualifies_weak(c)] + [z3.Not(qualifies_strict(cc)) for cc in range(c)]
    for m in range(n):
        parts.append(z3.Or(*[z3.And(inb(m, r, c, False), pole_eq(out, m, T, r, c, cfg.get("cov"))) for r in range(R)]))
    return z3.And(*parts)


def cex(cfg, T, m, order, note):
    inputs = {k: concretize(m, T[k]) for k in ("Fn", "Xi", "Phi", "Lab") if T.get(k) is not None}
    for k in ("Fn_cov", "Xi_cov", "Phi_cov"):
        if T.get(k) is not None:
            inputs[k] = concretize(m, T[k])
    inputs["req"] = [concretize(m, f) for f in T["req"]]
    inputs["rtol"] = concretize(m, T["rtol"])
    viol, detail, key = replay_mpe(cfg, inputs, order)
    return {"inputs": to_json(inputs), "reproduced": viol, "detail": (note + "; " if note else "") + detail, "key": key}


def replay_mpe(cfg, inputs, order=None):
    import pyoma2.functions.plscf as fplscf
    import pyoma2.functions.ssi as fssi
    if order is None:
        order = cfg.get("order", "find_min")
    Fn, Xi = np.array(inputs["Fn"], dtype=float), np.array(inputs["Xi"], dtype=float)
    Phi = np.array(inputs["Phi"]).astype(complex)
    Lab = np.array(inputs["Lab"], dtype=float).round().astype(int)
    req = [float(x) for x in inputs["req"]]
    rtol = float(inputs["rtol"])
    R, C = Fn.shape
    cov = "Fn_cov" in inputs
    name = f"{cfg['fn']}_mpe"
    before = [a.copy() for a in (Fn, Xi, Phi, Lab)]
    try:
        with np.errstate(all="ignore"):
            if cfg["fn"] == "SSI":
                kw = dict(Fn_cov=np.array(inputs["Fn_cov"], dtype=float), Xi_cov=np.array(inputs["Xi_cov"], dtype=float),
                          Phi_cov=np.array(inputs["Phi_cov"], dtype=float)) if cov else {}
                before += [a.copy() for a in kw.values()]
                out = fssi.SSI_mpe(list(req), Fn, Xi, Phi, list(order) if isinstance(order, list) else order, Lab=Lab, rtol=rtol, **kw)
            else:
                out = tuple(fplscf.pLSCF_mpe(list(req), Fn, Xi, Phi, list(order) if isinstance(order, list) else order, Lab=Lab, rtol=rtol)) + (None,) * 3
    except Exception as e:  # noqa: BLE001
        return True, f"{name}(order={order}) raised {type(e).__name__}: {e}", f"{name}:raises:{'find_min' if order == 'find_min' else 'explicit'}"
    after = [Fn, Xi, Phi, Lab] + (list(kw.values()) if cfg["fn"] == "SSI" else [])
    for nm, a0, a1 in zip(("Fn", "Xi", "Phi", "Lab", "Fn_cov", "Xi_cov", "Phi_cov"), before, after):
        if not np.array_equal(a0, a1, equal_nan=True):
            return True, f"{name}(order={order}) modified its input table {nm} (a second extraction would see different poles)", f"{name}:modifies-input"
    oFn, oXi, oPhi, oo = out[0], out[1], out[2], out[3]
    k = len(np.atleast_1d(oFn)) if np.size(oFn) else 0
    tol_must = [rtol * f for f in req]
    tol = [ATOL + rtol * f for f in req]
    eps = 1e-9

    def rows_equal(j, r, c):
        ok = np.isclose(oFn[j], Fn[r, c], rtol=1e-12, atol=0) and np.isclose(oXi[j], Xi[r, c], rtol=1e-12, atol=1e-300) and \
            np.allclose(np.asarray(oPhi)[:, j], Phi[r, c, :], rtol=1e-12, atol=1e-300)
        if ok and cov:
            ok = np.isclose(out[4][j], inputs["Fn_cov"][r, c], rtol=1e-12, atol=1e-300) and \
                np.isclose(out[5][j], inputs["Xi_cov"][r, c], rtol=1e-12, atol=1e-300) and \
                np.allclose(np.asarray(out[6])[:, j], np.asarray(inputs["Phi_cov"])[r, c, :], rtol=1e-12, atol=1e-300)
        return bool(ok)

    desc = f"{name}(order={order}, req={np.round(req, 6).tolist()}, rtol={rtol:.6g}) on Fn={np.round(Fn, 6).tolist()} Lab={Lab.tolist()}"
    if order != "find_min":
        orders = order if isinstance(order, list) else [order] * len(req)
        must, may = [], []
        for m, f in enumerate(req):
            col = Fn[:, orders[m]]
            d = np.abs(col - f)
            dm = np.nanmin(d)
            must.append(dm < tol_must[m] * (1 - eps))
            may.append(dm <= tol[m] * (1 + eps))
        # candidate subsets
        ok = False
        for S in itertools.combinations(range(len(req)), k):
            if any(must[m] and m not in S for m in range(len(req))) or any(not may[m] for m in S):
                continue
            good = True
            for j, m in enumerate(S):
                col = Fn[:, orders[m]]
                d = np.abs(col - req[m])
                near = [r for r in range(R) if not np.isnan(col[r]) and d[r] <= np.nanmin(d) * (1 + eps) + 1e-300]
                if not any(rows_equal(j, r, orders[m]) for r in near):
                    good = False
            if good:
                ok = True
        if ok:
            return False, "explicit-order extraction as specified", None
        got = np.round(np.atleast_1d(oFn).astype(float), 6).tolist() if k else []
        key = f"{name}:explicit:wrong-extraction"
        if k > sum(may):
            key = f"{name}:explicit:returned-although-not-close-to-its-request"
        return True, f"{desc} returned Fn={got} Xi={np.round(np.atleast_1d(oXi).astype(float), 6).tolist() if k else []} order_out={oo}; must={must} may={may}", key
    # find_min
    def count(m, c, strict):
        col = Fn[:, c]
        rows = [r for r in range(R) if not np.isnan(col[r]) and Lab[r, c] == 1 and
                (abs(col[r] - req[m]) < tol_must[m] * (1 - eps) if strict else abs(col[r] - req[m]) <= tol[m] * (1 + eps))]
        return rows

    def distinct(rows, c):
        return len({float(Fn[r, c]) for r in rows})

    def q_strict(c):
        return all(distinct(count(m, c, True), c) == 1 and distinct(count(m, c, False), c) == 1 for m in range(len(req)))

    def q_weak(c):
        return all(distinct(count(m, c, False), c) >= 1 and distinct(count(m, c, True), c) <= 1 for m in range(len(req)))

    first_strict = next((c for c in range(C) if q_strict(c)), None)
    if oo is None:
        if first_strict is None and k == 0:
            return False, "no qualifying order, none reported", None
        return True, f"{desc} reported no order although order {first_strict} has exactly one stable pole in every band", f"{name}:find_min:misses-qualifying-order"
    try:
        c = int(oo)
    except Exception:  # noqa: BLE001
        return True, f"{desc} returned order_out={oo!r}", f"{name}:find_min:order_out-type"
    if not (0 <= c < C) or not q_weak(c) or (first_strict is not None and first_strict < c) or k != len(req):
        return True, (f"{desc} reported order {c} with Fn={np.round(np.atleast_1d(oFn).astype(float), 6).tolist() if k else []}; lowest "
                      f"qualifying order is {first_strict}"), f"{name}:find_min:wrong-order"
    for m in range(len(req)):
        if not any(rows_equal(m, r, c) for r in count(m, c, False)):
            return True, f"{desc} order {c}: mode {m} is not the stable pole in its band", f"{name}:find_min:wrong-pole"
    return False, "find_min as specified", None


# ------------------------------------------------------------------------------------------ O5 wrappers
class _Obj:
    pass


def run_wrappers(cfg, tier):
    """mpe() of the algorithm classes: passes tables/Lab/rtol/covariances through and stores what the function returned"""
    import pyoma2.algorithms.plscf as aplscf
    import pyoma2.algorithms.ssi as assi
    is_ssi = cfg["cls"] == "SSIdat"
    rec = {}
    ret = tuple(object() for _ in range(7))

    def fake_ssi(sel_freq, Fn_pol, Xi_pol, Phi_pol, order, Lab=None, rtol=None, Fn_cov=None, Xi_cov=None, Phi_cov=None):
        rec.update(sel_freq=sel_freq, Fn=Fn_pol, Xi=Xi_pol, Phi=Phi_pol, order=order, Lab=Lab, rtol=rtol, Fn_cov=Fn_cov, Xi_cov=Xi_cov, Phi_cov=Phi_cov)
        return ret

    def fake_plscf(sel_freq, Fn_pol, Xi_pol, Phi_pol, order="find_min", Lab=None, deltaf=0.05, rtol=1e-2):
        rec.update(sel_freq=sel_freq, Fn=Fn_pol, Xi=Xi_pol, Phi=Phi_pol, order=order, Lab=Lab, rtol=rtol)
        return ret[:4]

    per = {"pyoma2.functions.ssi": {"SSI_mpe": fake_ssi}, "pyoma2.functions.plscf": {"pLSCF_mpe": fake_plscf}}
    W = World(per_module=per)
    tally = Tally(W, [cfg["cls"] + ".mpe", "BaseAlgorithm.mpe"])
    ex = Explorer()

    def body():
        res = _Obj()
        for k in ("Fn_poles", "Xi_poles", "Phi_poles", "Lab", "Fn_poles_cov", "Xi_poles_cov", "Phi_poles_cov"):
            setattr(res, k, object())
        rp = _Obj()
        alg = W.carrier(assi.SSIdat if is_ssi else aplscf.pLSCF, result=res, run_params=rp, name="a")
        sel, order, rtol = [fresh("f0")], 3, fresh("rtol")
        alg.mpe(sel_freq=sel, order=order, rtol=rtol)
        return alg, res, sel, order, rtol

    for e, (kind, r) in ex.run_all(body):
        why = []
        if kind == "exc":
            why.append(f"mpe raised {r!r}")
        else:
            alg, res, sel, order, rtol = r
            exp = dict(sel_freq=sel, Fn=res.Fn_poles, Xi=res.Xi_poles, Phi=res.Phi_poles, order=order, Lab=res.Lab, rtol=rtol)
            if is_ssi:
                exp.update(Fn_cov=res.Fn_poles_cov, Xi_cov=res.Xi_poles_cov, Phi_cov=res.Phi_poles_cov)
            for k, v in exp.items():
                if rec.get(k) is not v:
                    why.append(f"argument {k} not passed through")
            stored = [res.Fn, res.Xi, res.Phi, res.order_out] + ([res.Fn_cov, res.Xi_cov, res.Phi_cov] if is_ssi else [])
            if any(a is not b for a, b in zip(stored, ret)):
                why.append("results not stored as returned (Fn, Xi, Phi, order_out[, covariances])")
            if alg.run_params.sel_freq is not sel or alg.run_params.order_in != order or alg.run_params.rtol is not rtol:
                why.append("run_params not updated")
        tally.decide(e, z3.BoolVal(bool(why)), on_sat=lambda m, why=tuple(why): {"inputs": {}, "reproduced": True,
                     "detail": "; ".join(why), "key": f"{cfg['cls']}.mpe:wiring"}, label="mpe wiring")
    # gating: mpe without a result raises and stores nothing
    def body2():
        alg = W.carrier(assi.SSIdat if is_ssi else aplscf.pLSCF, result=None, run_params=_Obj(), name="a")
        alg.mpe(sel_freq=[1.0], order=1, rtol=0.01)
        return alg
    for e, (kind, r) in ex.run_all(body2):
        bad = not (kind == "exc" and isinstance(r, ValueError))
        tally.decide(e, z3.BoolVal(bad), on_sat=lambda m: {"inputs": {}, "reproduced": True, "detail": "mpe without result did not raise "
                     "ValueError", "key": f"{cfg['cls']}.mpe:gating"}, label="mpe gating")
    return tally.result(ex)


def replay(ob, cfg, inputs):
    if ob == "O5":
        return True, "wiring finding (deterministic; see detail in the evidence)"
    v, d, _ = replay_mpe(cfg, inputs)
    return v, d
