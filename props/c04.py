"""C04 — PreGER spectral merging is consistent with the single-setup spectral matrix."""
import itertools

import numpy as np
import z3

from symx.arr import NPProxy, SymArray, fresh
from symx.core import SC, SV, Explorer, ShimGap, concretize, differs, lift, toc
from symx.harness import Tally
from symx.twin import World

PROPERTY = "C04"
META = {
    "explanation": "The real fdd.SD_PreGER runs with SD_est replaced by the bilinear Welch model S[i,j,f] = sum_seg conj(X_i)*X_j over "
                   "symbolic complex segment spectra X[row, seg, line] (rows identified through the data arrays the stub receives) and "
                   "np.linalg.inv in closed form (1x1, 2x2).  z3 decides, as inverse-free polynomial identities: the reference block is "
                   "the mean over setups of the reference spectra; roving block i is S_mov,ref(i) inv(S_ref,ref(i)) mean (side, direction, "
                   "no transpose) - which makes every block independent of a per-setup gain except through the mean; with shared "
                   "reference spectra (simultaneous recording) the merged matrix equals the single-setup matrix of all sensors against "
                   "the references, line by line, in the order references, roving of setup 1, 2, ...; the stub records that nxseg, "
                   "method and pov reach every SD_est call, and the FDD_MS / EFDD_MS / pLSCF_MS run() methods forward them.",
    "bounds": {"quick": {"setups": 2, "references": "1..2", "roving": "1 (2 with 1 reference)", "segments": "1..2", "lines": 1},
               "thorough": {"setups": "2..3", "references": "1..2", "roving": "1..2", "segments": 2, "lines": "1..2"}},
    "stubs": ["fdd.SD_est: bilinear contract model of Welch/correlogram; records dt, nxseg, method, pov of every call",
              "np.linalg.inv: adjugate/determinant closed form for 1x1 and 2x2"],
    "assumptions": ["the reference spectral block of every setup is non-singular (divisor side conditions)",
                    "what Welch / the correlogram return numerically is scipy's"],
}


def jobs(tier):
    out = []
    if tier == "quick":
        cfgs = [(2, 1, (1, 1), 2), (2, 1, (2, 1), 1), (2, 2, (1, 1), 2)]   # segments >= references (non-singular block)
    else:
        cfgs = [(2, 1, (1, 1), 2), (2, 1, (2, 1), 2), (2, 2, (1, 1), 2), (3, 1, (1, 2, 1), 2), (2, 2, (2, 1), 2), (3, 2, (1, 1, 1), 2)]
    for S, nref, nmov, nseg in cfgs:
        for shared in (False, True):
            for method in ("per", "cor"):
                out.append({"ob": "O1235", "cfg": {"S": S, "nref": nref, "nmov": list(nmov), "nseg": nseg, "nf": 1, "shared": shared, "method": method}})
    out.append({"ob": "O4", "cfg": {"S": 2, "nref": 1, "nmov": [1, 1], "nseg": 1, "nf": 1, "method": "per"}})
    for cls in ("FDD_MS", "EFDD_MS", "pLSCF_MS"):
        out.append({"ob": "O5c", "cfg": {"cls": cls}})
    return out


class LAinv:
    def inv(self, A):
        A = np.asarray(A, dtype=object)
        n = A.shape[0]
        if A.shape != (n, n) or n > 2:
            raise ShimGap("inv stub: only 1x1 and 2x2")
        if n == 1:
            return SymArray(np.array([[lift(1) / toc(A[0, 0])]], dtype=object))
        a, b, c, d = (toc(A[0, 0]), toc(A[0, 1]), toc(A[1, 0]), toc(A[1, 1]))
        det = a * d - b * c
        out = np.empty((2, 2), dtype=object)
        out[0, 0], out[0, 1], out[1, 0], out[1, 1] = d / det, (-b) / det, (-c) / det, a / det
        return SymArray(out)

    def __getattr__(self, k):
        raise ShimGap(f"np.linalg.{k} not modelled")


def data_rows(setup, kind, n, N=2):
    a = np.empty((n, N), dtype=object)
    for r in range(n):
        for t in range(N):
            a[r, t] = ((setup, kind, r), t)
    return a


def row_labels(a):
    a = np.asarray(a, dtype=object)
    out = []
    for r in range(a.shape[0]):
        lab = a[r, 0][0]
        assert all(a[r, t][0] == lab and a[r, t][1] == t for t in range(a.shape[1])), "scrambled data row"
        out.append(lab)
    return out


class Model:
    """segment spectra per data row; shared references use one set of symbols for all setups"""

    def __init__(self, cfg):
        self.cfg = cfg
        self.X = {}
        self.calls = []

    def spec(self, lab):
        s, kind, r = lab
        key = ("ref", r) if (kind == "ref" and self.cfg.get("shared")) else lab
        if key not in self.X:
            nm = "X_" + "_".join(map(str, key))
            self.X[key] = [[SC(z3.Real(f"{nm}_s{q}_f{f}r"), z3.Real(f"{nm}_s{q}_f{f}i")) for f in range(self.cfg["nf"])]
                           for q in range(self.cfg["nseg"])]
        g = self.cfg.get("gain", {}).get(s)
        if g is not None:
            return [[x * g for x in row] for row in self.X[key]]
        return self.X[key]

    def S(self, la, lb, f):
        xa, xb = self.spec(la), self.spec(lb)
        return sum((xa[q][f].conjugate() * xb[q][f] for q in range(self.cfg["nseg"])), toc(0))

    def sd_est(self, Yall, Yref, dt, nxseg=1024, method="cor", pov=0.5):
        la, lb = row_labels(Yall), row_labels(Yref)
        self.calls.append(dict(dt=dt, nxseg=nxseg, method=method, pov=pov, all=la, ref=lb))
        nf = self.cfg["nf"]
        Sy = np.empty((len(la), len(lb), nf), dtype=object)
        for i, a in enumerate(la):
            for j, b in enumerate(lb):
                for f in range(nf):
                    Sy[i, j, f] = self.S(a, b, f)
        freq = SymArray(np.array([lift(dt) * 0 + f for f in range(nf)], dtype=object))
        return freq, SymArray(Sy)


def run(job, tier):
    if job["ob"] == "O5c":
        return run_classes(job["cfg"], tier)
    return run_merge(job["cfg"], tier, job["ob"])


def cinv2(M):
    """closed-form inverse of a 1x1 / 2x2 list-of-lists of SC"""
    n = len(M)
    if n == 1:
        return [[lift(1) / M[0][0]]]
    a, b, c, d = M[0][0], M[0][1], M[1][0], M[1][1]
    det = a * d - b * c
    return [[d / det, (-b) / det], [(-c) / det, a / det]]


def matmul(A, B):
    return [[sum((A[i][k] * B[k][j] for k in range(len(B))), toc(0)) for j in range(len(B[0]))] for i in range(len(A))]


def run_merge(cfg, tier, ob):
    from pyoma2.functions import fdd
    S, nref, nmov, nf = cfg["S"], cfg["nref"], cfg["nmov"], cfg["nf"]
    model = Model(cfg)
    W = World(overrides={"np": NPProxy(linalg=LAinv())}, per_module={"pyoma2.functions.fdd": {"SD_est": model.sd_est}})
    tf = W.module(fdd)
    tally = Tally(W, ["SD_PreGER"])
    ex = Explorer(timeout_ms=60000)
    st = {}

    def body():
        model.X.clear()
        model.calls.clear()
        fs = fresh("fs", nn=True)
        pov = fresh("pov")
        Explorer.cur.assume(fs.v > 0)
        if ob == "O4":
            g = fresh("gain")
            Explorer.cur.assume(g.v != 0)
            cfg["gain"] = {1: g}
        st.update(fs=fs, pov=pov)
        Y = [{"ref": data_rows(s, "ref", nref), "mov": data_rows(s, "mov", nmov[s])} for s in range(S)]
        return tf.SD_PreGER(Y, fs, nxseg=16, pov=pov, method=cfg["method"])

    for e, (kind, res) in ex.run_all(body):
        fs, pov = st["fs"], st["pov"]
        why, bad, bad_div, bad_mul = [], [], [], []
        if kind == "exc":
            why.append(f"raised {type(res).__name__}: {res}")
        else:
            freq, Sy = res
            ntot = nref + sum(nmov)
            if np.shape(Sy) != (ntot, nref, nf):
                why.append(f"shape {np.shape(Sy)} != ({ntot},{nref},{nf})")
            else:
              # the mean over S setups: exact division by S, or multiplication by the double 1/S (what `1 / n_setup * sum` computes;
              # the two differ by one rounding when S is not a power of two) - either is accepted
              for variant, bad in (("div", bad_div), ("mul", bad_mul)):
                for f in range(nf):
                    R = [[[model.S((s, "ref", a), (s, "ref", b), f) for b in range(nref)] for a in range(nref)] for s in range(S)]
                    A = [[[model.S((s, "mov", a), (s, "ref", b), f) for b in range(nref)] for a in range(nmov[s])] for s in range(S)]
                    if variant == "div":
                        M = [[sum((R[s][a][b] for s in range(S)), toc(0)) / S for b in range(nref)] for a in range(nref)]
                    else:
                        M = [[sum((R[s][a][b] for s in range(S)), toc(0)) * lift(1 / S) for b in range(nref)] for a in range(nref)]
                    # O2 reference block = mean
                    for a in range(nref):
                        for b in range(nref):
                            bad.append(differs(Sy[a, b, f], M[a][b]))
                    # O2 roving blocks = A_s inv(R_s) M ; rows in setup order (O1)
                    row = nref
                    for s in range(S):
                        G = matmul(matmul(A[s], cinv2(R[s])), M)
                        for a in range(nmov[s]):
                            for b in range(nref):
                                bad.append(differs(Sy[row + a, b, f], G[a][b]))
                        row += nmov[s]
                    # O3 simultaneous recording: equals the single-setup matrix of all sensors against the references
                    if cfg.get("shared"):
                        # with the mean taken as (double 1/S) * sum, S identical blocks average to kappa = S * double(1/S) times the
                        # block (kappa = 1 up to one rounding; exactly 1 for S a power of two)
                        kappa = lift(1) if variant == "div" else lift(1 / S) * S
                        for a in range(nref):
                            for b in range(nref):
                                bad.append(differs(Sy[a, b, f], model.S((0, "ref", a), (0, "ref", b), f) * kappa))
                        row = nref
                        for s in range(S):
                            for a in range(nmov[s]):
                                for b in range(nref):
                                    bad.append(differs(Sy[row + a, b, f], model.S((s, "mov", a), (0, "ref", b), f) * kappa))
                            row += nmov[s]
            bad = []      # obligations that do not depend on the mean convention
            # O5 parameter pass-through
            if not model.calls:
                why.append("SD_est never called")
            for c in model.calls:
                # the correlogram estimator takes no overlap: pov is only judged for the periodogram
                if c["nxseg"] != 16 or c["method"] != cfg["method"] or (cfg["method"] == "per" and c["pov"] is not pov):
                    why.append(f"an SD_est call received nxseg={c['nxseg']}, method={c['method']}, pov={c['pov']} instead of the caller's (16, {cfg['method']}, pov)")
                    break
                bad.append(differs(c["dt"], lift(1) / fs))
        neg = z3.BoolVal(True) if why else z3.Or(z3.And(z3.Or(*bad_div), z3.Or(*bad_mul)), *bad)
        # a structural finding does not depend on the values: no need to search a model of the non-linear divisor conditions
        tally.decide(e, neg, on_sat=lambda m, why=tuple(why): cex(cfg, why), with_side=not why,
                     label=f"S={S} nref={nref} nmov={nmov} shared={cfg.get('shared')} {cfg['method']}")
    cfg.pop("gain", None)
    return tally.result(ex)


def cex(cfg, why):
    viol, detail, key = replay_merge(cfg, {})
    return {"inputs": {}, "reproduced": viol, "detail": ("; ".join(why) + " | " if why else "") + detail, "key": key}


def replay_merge(cfg, inputs):
    """real SD_PreGER + real SD_est on one simultaneous recording cut into setups, against the single-setup estimate,
    with non-default segment length / overlap"""
    from pyoma2.functions import fdd
    S, nref, nmov = cfg["S"], cfg["nref"], cfg["nmov"]
    rng = np.random.RandomState(21)
    N = 4096
    ref = rng.randn(nref, N)
    movs = [rng.randn(n, N) + 0.3 * ref[:1] for n in nmov]
    fs, nxseg, pov = 50.0, 128, 0.25
    Y = [{"ref": ref.copy(), "mov": m} for m in movs]
    method = cfg["method"]
    try:
        freq, Sy = fdd.SD_PreGER(Y, fs, nxseg=nxseg, pov=pov, method=method)
    except Exception as e:  # noqa: BLE001
        return True, f"SD_PreGER raised {type(e).__name__}: {e}", "SD_PreGER:raises"
    allch = np.vstack([ref] + movs)
    f1, S1 = fdd.SD_est(allch, ref, 1 / fs, nxseg, method=method, pov=pov)
    if Sy.shape != S1.shape or not np.allclose(freq, f1):
        return True, f"merged shape {Sy.shape} / grid differ from the single-setup estimate {S1.shape}", "SD_PreGER:shape"
    if not np.allclose(Sy, S1, rtol=1e-6, atol=1e-9 * np.abs(S1).max()):
        # which parameter is responsible?
        _, S2 = fdd.SD_est(allch, ref, 1 / fs, nxseg, method=method, pov=0.5)
        key = "SD_PreGER:pov-not-forwarded" if np.allclose(Sy, S2, rtol=1e-6, atol=1e-9 * np.abs(S2).max()) else "SD_PreGER:merge"
        return True, (f"simultaneous recording, {method}, nxseg={nxseg}, pov={pov}: merged matrix differs from the single-setup "
                      f"cross-spectral matrix (max rel. dev. {np.abs(Sy - S1).max() / np.abs(S1).max():.3g})"), key
    # general clause: independent recordings per setup with different gains, against the definition built from the
    # real per-setup estimates (reference block = mean; roving block = G_mov,ref inv(G_ref,ref) mean)
    gains = [3.0, 1.0, 0.5, 2.0][:S]
    Yg = [{"ref": g * (rng.randn(nref, N) + 0.2 * k), "mov": g * rng.randn(n, N)} for k, (g, n) in enumerate(zip(gains, nmov))]
    Yin = [{"ref": d["ref"].copy(), "mov": d["mov"].copy()} for d in Yg]
    try:
        freq, Sy = fdd.SD_PreGER(Yin, fs, nxseg=nxseg, pov=pov, method=method)
    except Exception as e:  # noqa: BLE001
        return True, f"SD_PreGER raised {type(e).__name__}: {e}", "SD_PreGER:raises"
    per = [fdd.SD_est(np.vstack([d["ref"], d["mov"]]), d["ref"], 1 / fs, nxseg, method=method, pov=pov)[1] for d in Yg]
    mean = sum(G[:nref] for G in per) / S
    want = [mean]
    for G in per:
        blk = np.empty_like(G[nref:])
        for f in range(G.shape[2]):
            blk[:, :, f] = G[nref:, :, f] @ np.linalg.inv(G[:nref, :, f]) @ mean[:, :, f]
        want.append(blk)
    want = np.vstack(want)
    if Sy.shape != want.shape or not np.allclose(Sy, want, rtol=1e-6, atol=1e-9 * np.abs(want).max()):
        dev = np.abs(Sy - want).max(axis=(1, 2)) / np.abs(want).max() if Sy.shape == want.shape else None
        rows = [int(i) for i in np.nonzero(dev > 1e-6)[0]] if dev is not None else "shape"
        return True, (f"independent setups with gains {gains}, {method}: merged matrix differs from mean reference block / "
                      f"transmissibility x mean in rows {rows}"), "SD_PreGER:merge-general"
    return False, "merged == single-setup estimate; general clause == definition", None


class _O:
    pass


def run_classes(cfg, tier):
    import pyoma2.algorithms.fdd as afdd
    import pyoma2.algorithms.plscf as aplscf
    rec = {}

    class _Stop(Exception):
        pass

    def fake(Y, fs, nxseg=1024, pov=0.5, method="per"):
        rec.update(Y=Y, fs=fs, nxseg=nxseg, pov=pov, method=method)
        raise _Stop()

    W = World(per_module={"pyoma2.functions.fdd": {"SD_PreGER": fake}})
    cls = getattr(afdd, cfg["cls"], None) or getattr(aplscf, cfg["cls"])
    tally = Tally(W, [cfg["cls"] + ".run"])
    ex = Explorer()
    st = {}

    def body():
        rp = _O()
        rp.nxseg, rp.method_SD, rp.pov = 64, "cor", fresh("pov")
        rp.ordmax, rp.ordmin, rp.sc, rp.hc = 4, 0, {}, {}
        D = [{"ref": np.zeros((1, 8)), "mov": np.zeros((2, 8))}]
        fs = fresh("fs")
        alg = W.carrier(cls, run_params=rp, data=D, fs=fs, dt=0.1, name="a")
        st.update(rp=rp, D=D, fs=fs)
        try:
            alg.run()
        except _Stop:
            pass
        return alg

    for e, (kind, res) in ex.run_all(body):
        rp, D, fs = st["rp"], st["D"], st["fs"]
        why = []
        if kind == "exc":
            why.append(f"raised {res!r}")
        elif not rec:
            why.append("run() does not call SD_PreGER")
        elif not (rec["Y"] is D and rec["fs"] is fs and rec["nxseg"] == 64 and rec["pov"] is rp.pov and rec["method"] == "cor"):
            why.append(f"SD_PreGER received nxseg={rec['nxseg']} method={rec['method']} pov={rec['pov']} fs={rec['fs']}")
        tally.decide(e, z3.BoolVal(bool(why)), on_sat=lambda m, why=tuple(why): {"inputs": {}, "reproduced": True, "detail": "; ".join(why),
                                                                                 "key": f"{cfg['cls']}.run:SD_PreGER-wiring"}, label=cfg["cls"])
    return tally.result(ex)


def replay(ob, cfg, inputs):
    if ob == "O5c":
        return True, "wiring finding (deterministic)"
    v, d, _ = replay_merge(cfg, inputs)
    return v, d
