"""C10 — stability labels follow the soft criteria between consecutive orders."""
import itertools

import numpy as np
import z3

from symx.arr import SymArray, fresh
from symx.core import SB, SC, SV, Explorer, concretize, lift
from symx.harness import Tally, to_json
from symx.twin import World

PROPERTY = "C10"
META = {
    "explanation": "The real gen.SC_apply (with the real gen.MAC at 2x2x2, and with MAC as one uninterpreted value in [0,1] per "
                   "compared pair for larger tables) runs on symbolic pole tables with an arbitrary NaN pattern and symbolic "
                   "tolerances; every (ordmin, ordmax, step) that fits the table is enumerated.  Per path the concrete label "
                   "table is compared with the specification by z3 (soundness with some-minimiser/non-strict, completeness with "
                   "every-minimiser/strict, so ties and threshold neighbourhoods are not judged).  O4: the run() bodies hand the "
                   "filtered tables, ordmin/ordmax/step and the tolerances to SC_apply and store its result; the scanned "
                   "columns correspond to model orders [ordmin, ordmax] minus the first order.",
    "bounds": {"quick": {"tables": "2x2 (real MAC, 2 channels), 3x2 and 2x3 (MAC uninterpreted)", "step": "1..2"},
               "thorough": {"tables": "up to 3x3", "step": "1..2"}},
    "stubs": ["MAC uninterpreted per compared pair for tables larger than 2x2 (its own properties are C18)"],
    "assumptions": ["retained poles have Fn > 0 and Xi > 0 (guaranteed by the hard damping criterion)", "Fn, Xi, Phi share one "
                    "NaN pattern (C09/O3)", "real MAC case: mode shapes are non-zero vectors"],
}


NPARTS = 16


def triples(C):
    out = []
    for step in (1, 2):
        top = (C - 1) * step
        for ordmin in range(0, top + 1):
            for ordmax in range(ordmin, top + step):
                if int(ordmax / step) <= C - 1:
                    out.append((ordmin, ordmax, step))
    return out


def jobs(tier):
    out = []
    # (a) every (ordmin, ordmax, step) on one-row tables (cheap): pins the scanned range for every argument triple
    for C in (2, 3, 4):
        for (ordmin, ordmax, step) in triples(C):
            out.append({"ob": "O12", "cfg": {"shape": [1, C], "mac": "uf", "ordmin": ordmin, "ordmax": ordmax, "step": step}})
    out.append({"ob": "O12", "cfg": {"shape": [1, 2], "mac": "real", "ordmin": 0, "ordmax": 1, "step": 1}})
    # (b) multi-row tables: one representative triple per distinct set of scanned columns
    heavy = [((2, 2), "uf", 1)]
    if tier == "quick":
        heavy += [((3, 2), "uf", NPARTS), ((2, 3), "uf", NPARTS)]
    else:
        heavy += [((3, 2), "uf", NPARTS), ((2, 3), "uf", NPARTS), ((2, 2), "real", NPARTS)]
    for shp, mac, nparts in heavy:
        seen = set()
        for (ordmin, ordmax, step) in triples(shp[1]):
            sc = tuple(scanned(ordmin, ordmax, step))
            if sc in seen or not [c for c in sc if c != 0]:
                continue
            if tier == "quick" and nparts > 1 and len(sc) < shp[1]:
                continue   # quick: only the full scan for the large tables
            seen.add(sc)
            for part in range(nparts):
                cfg = {"shape": list(shp), "mac": mac, "ordmin": ordmin, "ordmax": ordmax, "step": step}
                if nparts > 1:
                    cfg["part"] = [part, nparts, 8]
                out.append({"ob": "O12", "cfg": cfg})
    for cls in ("SSIdat", "SSIdat_MS", "pLSCF", "pLSCF_MS"):
        for ordmin in (0, 1, 2):
            out.append({"ob": "O4", "cfg": {"cls": cls, "ordmin": ordmin, "ordmax": 3}})
    # with covariance tables (uncertainty enabled): labels are computed on the tables that are stored, after ALL hard criteria
    for cls in ("SSIdat", "SSIcov"):
        out.append({"ob": "O4", "cfg": {"cls": cls, "ordmin": 0, "ordmax": 3, "cov": True}})
    return out


def scanned(ordmin, ordmax, step):
    return sorted({int(oo / step) for oo in range(ordmin, ordmax + 1, step)})


def run(job, tier):
    if job["ob"] == "O4":
        return run_wiring(job["cfg"], tier)
    return run_labels(job["cfg"], tier)


def tables(R, C, nch):
    n0 = [[z3.Bool(f"nan_{i}_{j}") for j in range(C)] for i in range(R)]
    Fn = np.empty((R, C), dtype=object)
    Xi = np.empty((R, C), dtype=object)
    Phi = np.empty((R, C, nch), dtype=object)
    for i in range(R):
        for j in range(C):
            Fn[i, j] = SV(z3.Real(f"Fn_{i}_{j}"), n0[i][j], nn=True)   # > 0 when not NaN (assumed below)
            Xi[i, j] = SV(z3.Real(f"Xi_{i}_{j}"), n0[i][j], nn=True)
            for c in range(nch):
                Phi[i, j, c] = SC(z3.Real(f"Phi_{i}_{j}_{c}r"), z3.Real(f"Phi_{i}_{j}_{c}i"), n0[i][j])
    return n0, SymArray(Fn), SymArray(Xi), SymArray(Phi)


def absz(t):
    return z3.If(t >= 0, t, -t)


def run_labels(cfg, tier):
    from pyoma2.functions import gen
    R, C = cfg["shape"]
    nch = 2
    st = {}
    ids = {}

    def mac_uf(phi_X, phi_A):
        a, b = ids[phi_X[0].re.get_id()], ids[phi_A[0].re.get_id()]
        v = z3.Real(f"mac_{a[0]}_{a[1]}__{b[0]}_{b[1]}")
        Explorer.cur.add_def(z3.And(v >= 0, v <= 1))
        return SV(v, z3.simplify(z3.Or(phi_X[0].nan, phi_A[0].nan)))

    per = {"pyoma2.functions.gen": {"MAC": mac_uf}} if cfg["mac"] == "uf" else {}
    W = World(per_module=per)
    tg = W.module(gen)
    tally = Tally(W, ["SC_apply", "MAC"])
    ex = Explorer(timeout_ms=20000 if tier == "quick" else 60000, max_paths=400000, split_atoms=True, feas_timeout_ms=2000)
    if cfg.get("part"):
        ex.part = tuple(cfg["part"])
    sc = scanned(cfg["ordmin"], cfg["ordmax"], cfg["step"])

    def body():
        n0, Fn, Xi, Phi = tables(R, C, nch)
        for i in range(R):
            for j in range(C):
                ids[Phi[i, j, 0].re.get_id()] = (i, j)
                Explorer.cur.assume(z3.Or(n0[i][j], z3.And(Fn[i, j].v > 0, Xi[i, j].v > 0)))
                if cfg["mac"] == "real":
                    Explorer.cur.assume(z3.Or(n0[i][j], z3.Or(*[z3.Or(Phi[i, j, c].re != 0, Phi[i, j, c].im != 0) for c in range(nch)])))
        errs = [fresh("err_fn", nn=True), fresh("err_xi", nn=True), fresh("err_phi", nn=True)]
        for t in errs:
            Explorer.cur.assume(t.v > 0)
        st.update(n0=n0, Fn=Fn, Xi=Xi, Phi=Phi, errs=errs)
        return tg.SC_apply(Fn, Xi, Phi, cfg["ordmin"], cfg["ordmax"], cfg["step"], *errs)

    for e, (kind, Lab) in ex.run_all(body):
        if kind == "exc":
            tally.decide(e, z3.BoolVal(True), on_sat=lambda m: cex(cfg, st, m, f"SC_apply raised {Lab!r}", None))
            continue
        n0, Fn, Xi, Phi, errs = st["n0"], st["Fn"], st["Xi"], st["Phi"], st["errs"]
        Lab = np.asarray(Lab)
        if Lab.shape != (R, C):
            tally.decide(e, z3.BoolVal(True), on_sat=lambda m: cex(cfg, st, m, f"label shape {Lab.shape}", None))
            continue
        viol = []
        for o in range(C):
            for i in range(R):
                lab = int(Lab[i, o])
                eligible = o in sc and o != 0
                if not eligible:
                    if lab != 0:
                        viol.append(z3.BoolVal(True))
                    continue
                f, xi = Fn[i, o].v, Xi[i, o].v
                alts_some, alts_every, has_prev = [], [], []
                for j in range(R):
                    fj, xj = Fn[j, o - 1].v, Xi[j, o - 1].v
                    is_min = z3.And(z3.Not(n0[j][o - 1]), *[z3.Or(n0[k][o - 1], absz(fj - f) <= absz(Fn[k, o - 1].v - f)) for k in range(R)])
                    if cfg["mac"] == "uf":
                        mac = z3.Real(f"mac_{i}_{o}__{j}_{o - 1}")
                        om_num, om_den = 1 - mac, z3.RealVal(1)
                    else:
                        x = [Phi[i, o, c] for c in range(nch)]
                        a = [Phi[j, o - 1, c] for c in range(nch)]
                        num = sum((xc.conjugate() * ac for xc, ac in zip(x, a)), lift(0))
                        nn = num.re * num.re + num.im * num.im
                        den = (sum((xc.abs2() for xc in x), lift(0)) * sum((ac.abs2() for ac in a), lift(0))).v
                        om_num, om_den = den - nn, den          # 1 - MAC = (den - |x^H a|^2)/den, den > 0
                    # inverse-free: f, xi, den > 0 by assumption
                    c_le = z3.And(absz(f - fj) <= errs[0].v * f, absz(xi - xj) <= errs[1].v * xi, om_num <= errs[2].v * om_den)
                    c_lt = z3.And(absz(f - fj) < errs[0].v * f, absz(xi - xj) < errs[1].v * xi, om_num < errs[2].v * om_den)
                    alts_some.append(z3.And(is_min, c_le))
                    alts_every.append(z3.Implies(is_min, c_lt))
                    has_prev.append(z3.Not(n0[j][o - 1]))
                if lab == 1:
                    viol.append(z3.Not(z3.And(z3.Not(n0[i][o]), z3.Or(*alts_some))))
                elif lab == 0:
                    viol.append(z3.And(z3.Not(n0[i][o]), z3.Or(*has_prev), *alts_every))
                else:
                    viol.append(z3.BoolVal(True))
        neg = z3.Or(*viol) if viol else z3.BoolVal(False)
        if cfg["mac"] == "real":
            # model-search hints (a model found under a hint is a model of the plain query): shapes that tell a conjugated
            # from a non-conjugated product apart, and collinear shapes
            found = False
            for h0, h1 in (([1, 1j], [1, -1j]), ([1, 1j], [1, 1j]), ([1, 0.5j], [1 + 0j, 0.5j]), ([1, 1], [1, -1])):
                hint = []
                for i in range(R):
                    for j, hv in ((0, h0), (C - 1, h1)):
                        for c in range(nch):
                            hint += [Phi[i, j, c].re == float(np.real(hv[c])), Phi[i, j, c].im == float(np.imag(hv[c]))]
                r_, m_ = e.query(neg, *hint, timeout_ms=5000)
                if r_ == z3.sat:
                    tally.obligations += 1
                    tally.reach = True
                    c_ = cex(cfg, st, m_, None, None)
                    tally.cex.append(c_)
                    if c_.get("reproduced"):
                        tally.stop = True
                        e.halt = True
                    found = True
                    break
            if found:
                continue
        tally.decide(e, neg, on_sat=lambda m: cex(cfg, st, m, None, None), label=f"Lab={Lab.tolist()}")
    return tally.result(ex)


def cex(cfg, st, m, note, _):
    inputs = {"Fn": concretize(m, st["Fn"]), "Xi": concretize(m, st["Xi"]), "Phi": concretize(m, st["Phi"]),
              "errs": [concretize(m, t) for t in st["errs"]]}
    if cfg["mac"] == "uf":
        R, C = cfg["shape"]
        inputs["mac"] = {f"{i}_{o}__{j}_{o - 1}": float(concretize(m, SV(z3.Real(f"mac_{i}_{o}__{j}_{o - 1}"))))
                         for i in range(R) for j in range(R) for o in range(1, C)}
    viol, detail, key = replay_labels(cfg, inputs)
    return {"inputs": to_json(inputs), "reproduced": viol, "detail": (note + "; " if note else "") + detail, "key": key}


def replay_labels(cfg, inputs):
    from pyoma2.functions import gen
    Fn, Xi = np.array(inputs["Fn"], dtype=float), np.array(inputs["Xi"], dtype=float)
    Phi = np.array(inputs["Phi"]).astype(complex)
    R, C = Fn.shape
    errs = [float(x) for x in inputs["errs"]]
    sc = scanned(cfg["ordmin"], cfg["ordmax"], cfg["step"])
    saved = gen.MAC
    table = inputs.get("mac")
    if table is not None:
        # recognisable shapes per pole so that the MAC lookup can identify the pair
        for i in range(R):
            for j in range(C):
                if not np.isnan(Fn[i, j]):
                    Phi[i, j, :] = [1 + i + 10 * j, 0.5j]

        def mac_lookup(x, a):
            def find(v):
                for i in range(R):
                    for j in range(C):
                        if not np.any(np.isnan(Phi[i, j])) and np.array_equal(v, Phi[i, j]):
                            return i, j
                raise ValueError("unknown / NaN shape")
            (i, o), (j, o1) = find(x), find(a)
            return np.float64(table[f"{i}_{o}__{j}_{o1}"])
        gen.MAC = mac_lookup
    try:
        with np.errstate(all="ignore"):
            Lab = gen.SC_apply(Fn, Xi, Phi, cfg["ordmin"], cfg["ordmax"], cfg["step"], *errs)
    except Exception as e:  # noqa: BLE001
        return True, f"SC_apply raised {type(e).__name__}: {e}", "SC_apply:raises"
    finally:
        mac_fn = gen.MAC
        gen.MAC = saved
    if Lab.shape != Fn.shape:
        return True, f"label shape {Lab.shape}", "SC_apply:shape"
    eps = 1e-9
    for o in range(C):
        for i in range(R):
            lab = int(Lab[i, o])
            elig = o in sc and o != 0
            if not elig:
                if lab != 0:
                    return True, f"label 1 at column {o} outside the scanned range {sc} / first order", "SC_apply:label-outside-range"
                continue
            if np.isnan(Fn[i, o]):
                if lab != 0:
                    return True, f"NaN pole ({i},{o}) labelled stable", "SC_apply:nan-labelled"
                continue
            prev = [j for j in range(R) if not np.isnan(Fn[j, o - 1])]
            if not prev:
                if lab != 0:
                    return True, f"pole ({i},{o}) labelled stable with an empty previous order", "SC_apply:empty-previous"
                continue
            d = np.array([abs(Fn[j, o - 1] - Fn[i, o]) for j in prev])
            mins = [prev[k] for k in range(len(prev)) if d[k] <= d.min() * (1 + eps) + 1e-15]

            def conds(j):
                c1 = abs(Fn[i, o] - Fn[j, o - 1]) / Fn[i, o]
                c2 = abs(Xi[i, o] - Xi[j, o - 1]) / Xi[i, o]
                c3 = 1 - (mac_fn(Phi[i, o], Phi[j, o - 1]) if table is not None else saved(Phi[i, o], Phi[j, o - 1]))
                return c1, c2, c3
            some_le = any(all(c <= t * (1 + eps) + 1e-15 for c, t in zip(conds(j), errs)) for j in mins)
            every_lt = all(all(c < t * (1 - eps) - 1e-15 for c, t in zip(conds(j), errs)) for j in mins)
            if lab == 1 and not some_le:
                return True, (f"pole ({i},{o}) labelled stable but its nearest previous pole {mins} has conds "
                              f"{[tuple(round(float(c), 6) for c in conds(j)) for j in mins]} vs tolerances {errs}"), "SC_apply:unsound"
            if lab == 0 and every_lt:
                return True, (f"pole ({i},{o}) meets all three tolerances against its nearest previous pole {mins} but is "
                              f"labelled 0 (ordmin={cfg['ordmin']}, ordmax={cfg['ordmax']}, step={cfg['step']})"), "SC_apply:incomplete"
    return False, "labels as specified", None


# ------------------------------------------------------------------------------------------ O4 wiring in run()
def run_wiring(cfg, tier):
    """which tables / range / tolerances reach SC_apply from each run(), and is its result stored as Lab"""
    from props import c09
    c9 = {"cls": cfg["cls"], "shape": [2, 4], "conj": False, "cov": bool(cfg.get("cov"))}
    rec = {}
    st = {}
    hooks = {"mpc": lambda phi, rc: SV(st["T"]["mpc"][rc[0]][rc[1]], lift(phi[0]).nan),
             "mpd": lambda phi, rc: SV(st["T"]["mpd"][rc[0]][rc[1]], lift(phi[0]).nan)}
    ex = Explorer(timeout_ms=20000)
    tally = Tally(None, None)
    marker = np.arange(8).reshape(2, 4)

    def body():
        T = c09.symbolic_tables(c9)
        st["T"] = T
        per = c09.make_world(T, c9, hooks)

        def sc_apply(Fn, Xi, Phi, ordmin, ordmax, step, e1, e2, e3):
            rec.update(Fn=Fn, Xi=Xi, Phi=Phi, ordmin=ordmin, ordmax=ordmax, step=step, errs=(e1, e2, e3))
            return marker
        per["pyoma2.functions.gen"]["SC_apply"] = sc_apply
        W = World(per_module=per)
        tally.world = W
        tally.encoded_filter = [cfg["cls"] + ".run"]
        hc = dict(conj=False, xi_max=fresh("xi_max"), mpc_lim=fresh("mpc_lim"), mpd_lim=fresh("mpd_lim"), cov_max=fresh("cov_max"))
        attrs = c09.carrier_attrs(c9, hc)
        attrs["run_params"].ordmin, attrs["run_params"].ordmax = cfg["ordmin"], cfg["ordmax"]
        # a user dict in another key order: the tolerances are bound by key, not by position
        attrs["run_params"].sc = dict(err_phi=fresh("ephi"), err_fn=fresh("efn"), err_xi=fresh("exi"))
        st["sc"] = attrs["run_params"].sc
        alg = W.carrier(c09.get_cls(cfg["cls"]), **attrs)
        return alg.run()

    for e, (kind, res) in ex.run_all(body):
        ok = kind == "ok" and res.Lab is marker or (kind == "ok" and np.array_equal(np.asarray(res.Lab), marker))
        why = []
        if kind != "ok":
            why.append(f"run raised {res!r}")
        else:
            is_plscf = cfg["cls"].startswith("pLSCF")
            # model orders eligible for a label: [ordmin, ordmax] minus the first order of the table
            first = 1 if is_plscf else 0
            want_cols = sorted(o - first for o in range(max(cfg["ordmin"], first + 1), cfg["ordmax"] + 1))
            got_cols = [c for c in scanned(rec["ordmin"], rec["ordmax"], rec["step"]) if c != 0]
            if got_cols != want_cols:
                why.append(f"columns scanned {got_cols} (args ordmin={rec['ordmin']}, ordmax={rec['ordmax']}, step={rec['step']}) "
                           f"but orders [{cfg['ordmin']},{cfg['ordmax']}] minus the first order are columns {want_cols}")
            if not (rec["Fn"] is res.Fn_poles and rec["Xi"] is res.Xi_poles and rec["Phi"] is res.Phi_poles):
                why.append("tables handed to SC_apply are not the stored filtered tables")
            if not all(a is b for a, b in zip(rec["errs"], (st["sc"]["err_fn"], st["sc"]["err_xi"], st["sc"]["err_phi"]))):
                why.append("tolerances not passed in order (err_fn, err_xi, err_phi)")
            if not ok:
                why.append("result.Lab is not what SC_apply returned")
        neg = z3.BoolVal(bool(why))

        def on_sat(m, why=tuple(why)):
            viol, detail, key = replay_wiring(cfg, {})
            return {"inputs": {}, "reproduced": viol, "detail": "; ".join(why) + " | real: " + detail, "key": key}
        tally.decide(e, neg, on_sat=on_sat, label="SC_apply wiring")
    return tally.result(ex)


def replay_wiring(cfg, inputs):
    """concrete run() with a recording SC_apply on the real modules"""
    import pyoma2.functions.fdd as fdd
    import pyoma2.functions.gen as gen
    import pyoma2.functions.plscf as plscf
    import pyoma2.functions.ssi as ssi
    from props import c09
    cov = bool(cfg.get("cov"))
    c9 = {"cls": cfg["cls"], "shape": [2, 4], "conj": False, "cov": cov}
    rng = np.random.RandomState(1)
    T = {"Fn": rng.rand(2, 4) + 1, "Xi": rng.rand(2, 4) * 0.01 + 0.01, "Phi": (rng.rand(2, 4, 2) + 0.1).astype(complex),
         "L": rng.rand(2, 4) + 1j, "Fn_cov": None, "Xi_cov": None, "Phi_cov": None}
    if cov:
        # half of the poles exceed the covariance limit of 1.0
        T.update(Fn_cov=np.where(np.arange(8).reshape(2, 4) % 2 == 0, 0.5, 2.0), Xi_cov=rng.rand(2, 4), Phi_cov=rng.rand(2, 4, 2))
    rec = {}

    def sc_apply(Fn, Xi, Phi, ordmin, ordmax, step, e1, e2, e3):
        rec.update(ordmin=ordmin, ordmax=ordmax, step=step, errs=(e1, e2, e3), Fn=np.array(Fn, dtype=float))
        return np.zeros(Fn.shape, dtype=int)
    stubs = c09.make_world(T, c9, {"mpc": lambda p, rc: np.float64(1.0), "mpd": lambda p, rc: np.float64(0.0)})
    stubs["pyoma2.functions.gen"]["SC_apply"] = sc_apply
    mods = {"pyoma2.functions.ssi": ssi, "pyoma2.functions.fdd": fdd, "pyoma2.functions.plscf": plscf, "pyoma2.functions.gen": gen}
    saved = []
    try:
        for mn, d in stubs.items():
            for k, v in d.items():
                saved.append((mods[mn], k, getattr(mods[mn], k)))
                setattr(mods[mn], k, v)
        hc = dict(conj=False, xi_max=1.0, mpc_lim=0.0, mpd_lim=2.0, cov_max=1.0)
        attrs = c09.carrier_attrs(c9, hc)
        attrs["run_params"].ordmin, attrs["run_params"].ordmax = cfg["ordmin"], cfg["ordmax"]
        attrs["run_params"].sc = dict(err_phi=0.033, err_fn=0.011, err_xi=0.052)
        alg = object.__new__(c09.get_cls(cfg["cls"]))
        for k, v in attrs.items():
            setattr(alg, k, v)
        try:
            res = alg.run()
        except Exception as e:  # noqa: BLE001
            return True, f"run raised {type(e).__name__}: {e}", f"{cfg['cls']}.run:raises"
    finally:
        for mod, k, v in saved:
            setattr(mod, k, v)
    is_plscf = cfg["cls"].startswith("pLSCF")
    first = 1 if is_plscf else 0
    want_cols = sorted(o - first for o in range(max(cfg["ordmin"], first + 1), cfg["ordmax"] + 1))
    got_cols = [c for c in scanned(rec["ordmin"], rec["ordmax"], rec["step"]) if c != 0]
    if got_cols != want_cols:
        return True, (f"{cfg['cls']}.run with ordmin={cfg['ordmin']}, ordmax={cfg['ordmax']} scans columns {got_cols}; model orders "
                      f"[{cfg['ordmin']},{cfg['ordmax']}] minus the first are columns {want_cols}"), f"{cfg['cls']}.run:label-range"
    if tuple(rec["errs"]) != (0.011, 0.052, 0.033):
        return True, (f"tolerances reached SC_apply as {rec['errs']} for sc = dict(err_phi=0.033, err_fn=0.011, err_xi=0.052): bound by position, "
                      f"not by key"), f"{cfg['cls']}.run:tolerances"
    if not np.array_equal(np.isnan(rec["Fn"]), np.isnan(np.asarray(res.Fn_poles, dtype=float))):
        return True, ("the stability labels were computed on tables that are not the stored ones (a hard criterion is applied after "
                      "labelling: NaN poles keep their label)"), f"{cfg['cls']}.run:labels-before-last-filter"
    return False, "wiring as specified", None


def replay(ob, cfg, inputs):
    if ob == "O4":
        v, d, _ = replay_wiring(cfg, inputs)
    else:
        v, d, _ = replay_labels(cfg, inputs)
    return v, d
