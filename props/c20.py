"""C20 — diagrams show exactly the identified poles at their frequency, order and damping."""
import itertools
import re

import numpy as np
import z3

from symx.arr import SymArray, fresh
from symx.core import SB, SC, SV, Explorer, concretize, differs, lift
from symx.harness import Tally, to_json
from symx.twin import World

PROPERTY = "C20"
META = {
    "explanation": "The real plot.stab_plot, plot.cluster_plot, plot.CMIF_plot and the plot methods of SSIdat, pLSCF and FDD run "
                   "with matplotlib replaced by a recording stub; the arrays handed to the artists are symbolic terms over "
                   "symbolic pole / label / singular-value tables.  Each drawn point is traced back to its table cell; z3 shows "
                   "that the drawn points are exactly {(Fn, column*step) or (Fn, Xi) : label, not NaN} and that each CMIF curve "
                   "is 10*log10(S[k,k,f] / max_f S[0,0,f]) over the whole grid.",
    "bounds": {"quick": {"tables": "2x3 and 3x2, any NaN pattern, labels 0/1 symbolic", "step": "1..2", "hide_poles": "both",
                         "covariance error bars": "with/without", "CMIF": "2..3 singular values x 3 lines"},
               "thorough": {"tables": "up to 3x4", "CMIF": "3 x 4"}},
    "stubs": ["matplotlib.pyplot and Axes: recording stub (plot/scatter/errorbar store their arguments)", "np.log10 uninterpreted"],
    "assumptions": ["labels are 0 or 1", "what matplotlib renders from the recorded arrays (NaN points are not drawn) is matplotlib's"],
}


class Rec:
    """recording stand-in for an Axes / Figure / pyplot"""

    def __init__(self):
        self.calls = []

    def subplots(self, *a, **k):
        return self, self

    def plot(self, *a, **k):
        self.calls.append(("plot", a, k))
        return [self]

    def scatter(self, *a, **k):
        self.calls.append(("scatter", a, k))
        return self

    def errorbar(self, *a, **k):
        self.calls.append(("errorbar", a, k))
        return self

    def __getattr__(self, name):
        def f(*a, **k):
            return None
        return f


def jobs(tier):
    out = []
    shapes = [(2, 3), (3, 2)] if tier == "quick" else [(2, 3), (3, 2), (3, 3), (3, 4)]
    for shp in shapes:
        for hide in (True, False):
            for step in (1, 2):
                for cov in (False, True):
                    if cov and step == 2:
                        continue
                    out.append({"ob": "O1", "cfg": {"fn": "stab_plot", "shape": list(shp), "hide": hide, "step": step, "cov": cov}})
            # non-default ordmin only restricts the axis range: markers stay at column*step
            out.append({"ob": "O1", "cfg": {"fn": "stab_plot", "shape": list(shp), "hide": hide, "step": 1, "cov": False, "ordmin": 1}})
            out.append({"ob": "O2", "cfg": {"fn": "cluster_plot", "shape": list(shp), "hide": hide}})
            # the cluster diagram shows the same poles as the stabilisation diagram: ordmin does not remove any
            out.append({"ob": "O2", "cfg": {"fn": "cluster_plot", "shape": list(shp), "hide": hide, "ordmin": 1}})
    for n, nf in (((2, 3), (3, 3)) if tier == "quick" else ((2, 3), (3, 3), (3, 4))):
        for nsv in ["all"] + list(range(1, n)):
            out.append({"ob": "O3", "cfg": {"fn": "CMIF_plot", "n": n, "nf": nf, "nSv": nsv}})
        # a frequency limit only sets the axis range: curves are drawn over the whole grid, referred to the global maximum
        out.append({"ob": "O3", "cfg": {"fn": "CMIF_plot", "n": n, "nf": nf, "nSv": "all", "freqlim": [0.5, 1.5]}})
        out.append({"ob": "O3", "cfg": {"fn": "FDD.plot_CMIF", "n": n, "nf": nf, "nSv": "all", "freqlim": [0.5, 1.5]}})
    for cls, meth in (("SSIdat", "plot_stab"), ("SSIdat", "plot_cluster"), ("pLSCF", "plot_stab"), ("pLSCF", "plot_cluster"),
                      ("FDD", "plot_CMIF")):
        for hide in (True, False):
            if meth == "plot_CMIF" and not hide:
                continue
            out.append({"ob": "O4", "cfg": {"cls": cls, "meth": meth, "shape": [2, 3], "hide": hide}})
            if meth in ("plot_stab", "plot_cluster"):
                out.append({"ob": "O4", "cfg": {"cls": cls, "meth": meth, "shape": [2, 3], "hide": hide, "ordmin": 1}})
    return out


def _fl(cfg):
    return tuple(cfg["freqlim"]) if cfg.get("freqlim") else None


def run(job, tier):
    cfg = job["cfg"]
    if job["ob"] == "O3":
        return run_cmif(cfg, tier)
    return run_poles(cfg, tier, job["ob"])


def sym_tables(R, C, cov=False):
    n0 = [[z3.Bool(f"nan_{i}_{j}") for j in range(C)] for i in range(R)]

    def tab(name):
        a = np.empty((R, C), dtype=object)
        for i in range(R):
            for j in range(C):
                a[i, j] = SV(z3.Real(f"{name}_{i}_{j}"), n0[i][j])
        return SymArray(a)
    T = {"Fn": tab("Fn"), "Xi": tab("Xi"), "n0": n0}
    lab = np.empty((R, C), dtype=object)
    for i in range(R):
        for j in range(C):
            lab[i, j] = SV(z3.Real(f"Lab_{i}_{j}"))
    T["Lab"] = SymArray(lab)
    T["Fn_cov"] = tab("Fncov") if cov else None
    return T


CELL = re.compile(r"Fn_(\d+)_(\d+)")


def cell_of(x):
    """table cell whose frequency symbol occurs in the drawn x value"""
    names = set(CELL.findall(str(lift(x).v)))
    if len(names) != 1:
        return None
    i, j = names.pop()
    return int(i), int(j)


def check_points(T, xs, ys, want_label, ycol, R, C):
    """z3 formula: drawn points (xs, ys) == {(Fn[i,j], ycol(i,j)) : Lab == want_label and not NaN}; None if the
    structure (one point slot per table cell) is broken"""
    xs = list(np.asarray(xs, dtype=object).ravel())
    ys = list(np.asarray(ys, dtype=object).ravel())
    if len(xs) != len(ys):
        return None, f"x has {len(xs)} values, y has {len(ys)}"
    cells = {}
    for k, x in enumerate(xs):
        if not isinstance(x, (SV,)):
            x = lift(x)
        c = cell_of(x)
        if c is None:
            # a slot that can never be drawn (constant NaN) is harmless
            if z3.is_true(z3.simplify(lift(x).nan)):
                continue
            return None, f"drawn x[{k}] does not stem from exactly one table cell"
        if c in cells:
            return None, f"table cell {c} is drawn twice"
        cells[c] = k
    parts = []
    for i in range(R):
        for j in range(C):
            drawn_spec = z3.And(z3.Not(T["n0"][i][j]), T["Lab"][i, j].v == want_label)
            if (i, j) not in cells:
                parts.append(z3.Not(drawn_spec))
                continue
            k = cells[(i, j)]
            x, y = lift(xs[k]), lift(ys[k])
            drawn = z3.And(z3.Not(x.nan), z3.Not(y.nan))
            parts.append(drawn == drawn_spec)
            parts.append(z3.Implies(drawn_spec, z3.And(z3.Not(differs(x, T["Fn"][i, j])), z3.Not(differs(y, ycol(i, j))))))
    return z3.And(*parts), None


def run_poles(cfg, tier, ob):
    import pyoma2.algorithms.fdd as afdd
    import pyoma2.algorithms.plscf as aplscf
    import pyoma2.algorithms.ssi as assi
    from pyoma2.functions import plot
    rec = Rec()
    W = World(per_module={"pyoma2.functions.plot": {"plt": rec}})
    tp = W.module(plot)
    R, C = cfg["shape"]
    tally = Tally(W, ["stab_plot", "cluster_plot", "CMIF_plot", "plot_stab", "plot_cluster", "plot_CMIF"])
    ex = Explorer(timeout_ms=20000)
    st = {}
    if ob == "O4" and cfg["meth"] == "plot_CMIF":
        return run_cmif({"fn": "FDD.plot_CMIF", "n": 2, "nf": 3, "nSv": "all"}, tier)

    def body():
        T = sym_tables(R, C, cov=cfg.get("cov", False))
        st["T"] = T
        rec.calls.clear()
        for i in range(R):
            for j in range(C):
                Explorer.cur.assume(z3.Or(T["Lab"][i, j].v == 0, T["Lab"][i, j].v == 1))
        if ob == "O1":
            return tp.stab_plot(T["Fn"], T["Lab"], cfg["step"], C - 1, ordmin=cfg.get("ordmin", 0), freqlim=(0, 10),
                                hide_poles=cfg["hide"], Fn_cov=T["Fn_cov"])
        if ob == "O2":
            return tp.cluster_plot(T["Fn"], T["Xi"], T["Lab"], ordmin=cfg.get("ordmin", 0), freqlim=None, hide_poles=cfg["hide"])

        class _O:
            pass
        res, rp = _O(), _O()
        res.Fn_poles, res.Xi_poles, res.Lab, res.Fn_poles_cov = T["Fn"], T["Xi"], T["Lab"], None
        rp.step, rp.ordmax, rp.ordmin = 1, C - 1, cfg.get("ordmin", 0)
        alg = W.carrier(getattr(assi if cfg["cls"].startswith("SSI") else aplscf, cfg["cls"]), result=res, run_params=rp, name="a")
        return getattr(alg, cfg["meth"])(freqlim=None, hide_poles=cfg["hide"])

    for e, (kind, res) in ex.run_all(body):
        T = st["T"]
        if kind == "exc":
            tally.decide(e, z3.BoolVal(True), on_sat=lambda m: cex(cfg, ob, T, m, f"raised {type(res).__name__}: {res}"), label="no exception")
            continue
        step = cfg.get("step", 1)
        is_cluster = (ob == "O2") or (ob == "O4" and cfg["meth"] == "plot_cluster")
        ycol = (lambda i, j: T["Xi"][i, j]) if is_cluster else (lambda i, j: lift(j * step))
        plots = [c for c in rec.calls if c[0] == "plot"]
        scat = [c for c in rec.calls if c[0] == "scatter"]
        why = None
        parts = []
        if len(plots) != 1 or len(scat) != (0 if cfg["hide"] else 1):
            why = f"{len(plots)} marker plots and {len(scat)} scatter calls"
        else:
            f1, why = check_points(T, plots[0][1][0], plots[0][1][1], 1, ycol, R, C)
            if why is None:
                parts.append(f1)
                if not cfg["hide"]:
                    f2, why = check_points(T, scat[0][1][0], scat[0][1][1], 0, ycol, R, C)
                    if why is None:
                        parts.append(f2)
        neg = z3.BoolVal(True) if why else z3.Not(z3.And(*parts))
        # model picker: pairwise distinct, well separated values so that a mis-pairing is visible after replay
        cells = [T["Fn"][i, j].v for i in range(R) for j in range(C)] + [T["Xi"][i, j].v for i in range(R) for j in range(C)]
        sep = [z3.Or(a - b > z3.Q(1, 10), b - a > z3.Q(1, 10)) for a, b in itertools.combinations(cells, 2)] + [c > 0 for c in cells]
        tally.decide(e, neg, robust=z3.And(neg, *sep), on_sat=lambda m, why=why: cex(cfg, ob, T, m, why),
                     label=f"{cfg.get('fn') or cfg.get('meth')} hide={cfg['hide']}")
    return tally.result(ex)


def cex(cfg, ob, T, m, note):
    inputs = {"Fn": concretize(m, T["Fn"]), "Xi": concretize(m, T["Xi"]), "Lab": concretize(m, T["Lab"])}
    if T.get("Fn_cov") is not None:
        inputs["Fn_cov"] = concretize(m, T["Fn_cov"])
    viol, detail, key = replay_poles(cfg, ob, inputs)
    return {"inputs": to_json(inputs), "reproduced": viol, "detail": (note + " | " if note else "") + detail, "key": key}


def replay_poles(cfg, ob, inputs):
    """real functions with the Agg backend: read the artists' data back"""
    import matplotlib
    matplotlib.use("Agg")
    import matplotlib.pyplot as plt
    import pyoma2.algorithms.plscf as aplscf
    import pyoma2.algorithms.ssi as assi
    from pyoma2.functions import plot
    Fn, Xi = np.array(inputs["Fn"], dtype=float), np.array(inputs["Xi"], dtype=float)
    Lab = np.array(inputs["Lab"], dtype=float).round().astype(int)
    R, C = Fn.shape
    cov = np.array(inputs["Fn_cov"], dtype=float) if "Fn_cov" in inputs else None
    step = cfg.get("step", 1)
    name = cfg.get("fn") or f"{cfg['cls']}.{cfg['meth']}"
    try:
        if ob == "O1":
            fig, ax = plot.stab_plot(Fn, Lab, step, C - 1, ordmin=cfg.get("ordmin", 0), freqlim=(0, 10), hide_poles=cfg["hide"], Fn_cov=cov)
        elif ob == "O2":
            fig, ax = plot.cluster_plot(Fn, Xi, Lab, ordmin=cfg.get("ordmin", 0), freqlim=None, hide_poles=cfg["hide"])
        else:
            class _O:
                pass
            res, rp = _O(), _O()
            res.Fn_poles, res.Xi_poles, res.Lab, res.Fn_poles_cov = Fn, Xi, Lab, None
            rp.step, rp.ordmax, rp.ordmin = 1, C - 1, cfg.get("ordmin", 0)
            alg = object.__new__(getattr(assi if cfg["cls"].startswith("SSI") else aplscf, cfg["cls"]))
            alg.result, alg.run_params, alg.name = res, rp, "a"
            fig, ax = getattr(alg, cfg["meth"])(freqlim=None, hide_poles=cfg["hide"])
    except Exception as e:  # noqa: BLE001
        plt.close("all")
        return True, f"{name} raised {type(e).__name__}: {e}", f"{name}:raises"
    is_cluster = (ob == "O2") or (ob == "O4" and cfg["meth"] == "plot_cluster")

    def want(label):
        pts = []
        for i in range(R):
            for j in range(C):
                if Lab[i, j] == label and not np.isnan(Fn[i, j]):
                    pts.append((round(float(Fn[i, j]), 9), round(float(Xi[i, j]) if is_cluster else float(j * step), 9)))
        return sorted(pts)

    def got(xy):
        return sorted((round(float(x), 9), round(float(y), 9)) for x, y in xy if not (np.isnan(x) or np.isnan(y)))
    lines = [ln for ln in ax.get_lines() if ln.get_marker() == "o"]
    stable = got(zip(*lines[0].get_data())) if lines else []
    plt.close("all")
    if len(lines) != 1 or stable != want(1):
        return True, f"{name}: stable markers {stable} != stable poles {want(1)}", f"{name}:stable-markers"
    if not cfg["hide"]:
        cols = [c for c in ax.collections if hasattr(c, "get_offsets") and len(c.get_offsets())]
        pts = got(np.asarray(cols[0].get_offsets())) if cols else []
        if pts != want(0):
            return True, f"{name}: unstable markers {pts} != other retained poles {want(0)}", f"{name}:unstable-markers"
    return False, "markers as specified", None


# ------------------------------------------------------------------------------------------ CMIF
def run_cmif(cfg, tier):
    import pyoma2.algorithms.fdd as afdd
    from pyoma2.functions import plot
    rec = Rec()
    W = World(per_module={"pyoma2.functions.plot": {"plt": rec}})
    tp = W.module(plot)
    n, nf = cfg["n"], cfg["nf"]
    tally = Tally(W, ["CMIF_plot", "plot_CMIF"])
    ex = Explorer(timeout_ms=20000)
    st = {}

    def body():
        S = np.empty((n, n, nf), dtype=object)
        for ix in np.ndindex(S.shape):
            S[ix] = SV(z3.Real(f"S_{ix[0]}_{ix[1]}_{ix[2]}"), nn=True)
        S = SymArray(S)
        freq = fresh("freq", (nf,))
        st["S"], st["freq"] = S, freq
        for ix in np.ndindex(S.shape):
            Explorer.cur.assume(S[ix].v > 0)
        rec.calls.clear()
        if cfg["fn"] == "CMIF_plot":
            return tp.CMIF_plot(S, freq, freqlim=_fl(cfg), nSv=cfg["nSv"])

        class _O:
            pass
        res = _O()
        res.S_val, res.freq = S, freq
        alg = W.carrier(afdd.FDD, result=res, run_params=_O(), name="a")
        return alg.plot_CMIF(freqlim=_fl(cfg), nSv=cfg["nSv"])

    log10 = z3.Function("uf_log10", z3.RealSort(), z3.RealSort())
    for e, (kind, res) in ex.run_all(body):
        S, freq = st["S"], st["freq"]
        if kind == "exc":
            tally.decide(e, z3.BoolVal(True), on_sat=lambda m: cex_cmif(cfg, S, freq, m, f"raised {type(res).__name__}: {res}"))
            continue
        want_n = n if cfg["nSv"] == "all" else int(cfg["nSv"])
        plots = [c for c in rec.calls if c[0] == "plot"]
        why = None
        parts = []
        if len(plots) != want_n:
            why = f"{len(plots)} curves for nSv={cfg['nSv']}"
        else:
            for k, c in enumerate(plots):
                x, y = c[1][0], c[1][1]
                if np.shape(x) != (nf,) or np.shape(y) != (nf,):
                    why = f"curve {k} has {np.shape(y)} points over a grid of {nf}"
                    break
                alts = []
                for g in range(nf):
                    ismax = z3.And(*[S[0, 0, g].v >= S[0, 0, h].v for h in range(nf)])
                    vals = z3.And(*[z3.And(z3.Not(lift(y[f]).nan), lift(y[f]).z == 10 * log10(S[k, k, f].v / S[0, 0, g].v),
                                           lift(x[f]).z == freq[f].v) for f in range(nf)])
                    alts.append(z3.And(ismax, vals))
                parts.append(z3.Or(*alts))
        neg = z3.BoolVal(True) if why else z3.Not(z3.And(*parts))
        tally.decide(e, neg, on_sat=lambda m, why=why: cex_cmif(cfg, S, freq, m, why), label=f"{cfg['fn']} nSv={cfg['nSv']}")
    return tally.result(ex)


def cex_cmif(cfg, S, freq, m, note):
    inputs = {"S": concretize(m, S), "freq": concretize(m, freq)}
    viol, detail, key = replay_cmif(cfg, inputs)
    return {"inputs": to_json(inputs), "reproduced": viol, "detail": (note + " | " if note else "") + detail, "key": key}


def replay_cmif(cfg, inputs):
    import matplotlib
    matplotlib.use("Agg")
    import matplotlib.pyplot as plt
    import pyoma2.algorithms.fdd as afdd
    from pyoma2.functions import plot
    S, freq = np.abs(np.array(inputs["S"], dtype=float)) + 1e-3, np.array(inputs["freq"], dtype=float)
    n = S.shape[0]
    try:
        if cfg["fn"] == "CMIF_plot":
            fig, ax = plot.CMIF_plot(S, freq, freqlim=_fl(cfg), nSv=cfg["nSv"])
        else:
            class _O:
                pass
            res = _O()
            res.S_val, res.freq = S, freq
            alg = object.__new__(afdd.FDD)
            alg.result, alg.run_params, alg.name = res, _O(), "a"
            fig, ax = alg.plot_CMIF(freqlim=_fl(cfg), nSv=cfg["nSv"])
    except Exception as e:  # noqa: BLE001
        plt.close("all")
        return True, f"{cfg['fn']} raised {type(e).__name__}: {e}", f"{cfg['fn']}:raises"
    lines = ax.get_lines()
    want_n = n if cfg["nSv"] == "all" else int(cfg["nSv"])
    data = [ln.get_data() for ln in lines]
    plt.close("all")
    if len(lines) != want_n:
        return True, f"{len(lines)} curves drawn for nSv={cfg['nSv']}", f"{cfg['fn']}:curve-count"
    ref = S[0, 0, :].max()
    for k, (x, y) in enumerate(data):
        if len(x) != len(freq) or not np.allclose(x, freq) or not np.allclose(y, 10 * np.log10(S[k, k, :] / ref), rtol=1e-9, atol=1e-12):
            return True, f"curve {k} is not 10*log10(S[{k},{k},:]/max S[0,0,:]) over the whole grid", f"{cfg['fn']}:curve-values"
    return False, "curves as specified", None


def replay(ob, cfg, inputs):
    if ob == "O3" or cfg.get("meth") == "plot_CMIF":
        v, d, _ = replay_cmif(cfg if "fn" in cfg else {"fn": "FDD.plot_CMIF", "n": 2, "nf": 3, "nSv": "all"}, inputs)
    else:
        v, d, _ = replay_poles(cfg, ob, inputs)
    return v, d
