"""C08 — identification is covariant under gain, channel order and time unit (kernel-level relational lemmas)."""
import itertools

import numpy as np
import z3

from symx.arr import NPProxy, SymArray, fork_where, fresh
from symx.core import SC, SV, Explorer, ShimGap, concretize, differs, differs_nan, lift, sqof, toc
from symx.harness import Tally, to_json
from symx.twin import World

PROPERTY = "C08"
META = {
    "explanation": "Two-run (relational) obligations on the real kernels where pyOMA2's own code could break covariance: "
                   "O1 ssi.ac2mp and plscf.ac2mp_poly (both spectral methods) are run twice on the SAME eigen-decomposition (eig stub) "
                   "with dt and dt/k, k>0 symbolic, log uninterpreted: frequencies scale by k, damping ratios, shapes and the NaN "
                   "pattern are unchanged; O3 every returned shape has a component equal to 1 and none larger in modulus, and is "
                   "unchanged when the output matrix C is multiplied by a non-zero complex constant; O4 build_hank(Q Y, Q' Yref) == "
                   "(I (x) Q) H (I (x) Q')^T for the covariance methods with fully symbolic mixing matrices (permutations, sign flips and "
                   "orthogonal mixing are special cases; the identity is bilinearity); for 'dat' the same relation is decided on the stacked "
                   "past/future matrix handed to the QR factorisation; O5 the real SSI_fast on H and k^2 H under a relational SVD contract "
                   "(same singular vectors, singular values scaled by k^2 > 0): same list of models, identical state matrices, output "
                   "matrices scaled by k; O6 the real pLSCF hands np.exp arguments +-i*pi*j/(Nf-1) whatever the symbolic dt (its basis "
                   "functions, hence its normal equations, do not depend on the declared time unit).",
    "bounds": {"quick": {"model order": 2, "channels": "2", "Hankel": "l=2, r=1..2, br=1, 8 samples"},
               "thorough": {"model order": "2..3", "channels": "2..3", "Hankel": "l=2..3, br=1..2"}},
    "stubs": ["scipy.linalg.eig / np.linalg.eig: symbolic eigenvalues and eigenvectors shared by both runs", "np.log on complex: "
              "uninterpreted", "sqrt: shared uninterpreted function; magnitudes are compared through their squares"],
    "assumptions": ["whole-pipeline covariance on data (FFT/SVD on floats) is outside the claim", "eigenvalues are non-zero (log defined), "
                    "eigen-shapes non-zero"],
}


STUBS = []


class Eig:
    identity_vectors = False

    def __init__(self, n):
        self.n = n

    def make(self):
        n = self.n
        lam = SymArray(np.array([SC(z3.Real(f"lam{j}r"), z3.Real(f"lam{j}i")) for j in range(n)], dtype=object))
        if self.identity_vectors:
            # the kernels use the eigenvectors only through C @ V; with C fully symbolic, V = I loses no generality for
            # them and keeps the arg-max comparisons quadratic (quick tier); the thorough tier keeps V symbolic
            vr = SymArray(np.array([[toc(1.0 if i == j else 0.0) for j in range(n)] for i in range(n)], dtype=object))
        else:
            vr = fresh("vr", (n, n), complex_=True)
        vl = fresh("vl", (n, n), complex_=True)
        self.last_vr = vr
        return lam, vl, vr

    def eig(self, A, left=False, right=True, **k):
        lam, vl, vr = self.make()
        if left:
            return lam, vl, vr
        return lam, vr


def jobs(tier):
    out = []
    q = tier == "quick"
    for nch in ((2, 3) if q else (2, 3)):
        for vI in ((True,) if q else (True, False)):
            if not vI and nch == 3:
                continue
            out.append({"ob": "O1", "cfg": {"fn": "ac2mp", "n": 2, "nch": nch, "vI": vI}})
            for m in ("per", "cor"):
                out.append({"ob": "O1", "cfg": {"fn": "ac2mp_poly", "n": 2, "nch": nch, "method": m, "vI": vI}})
    for fn in ("ac2mp", "ac2mp_poly"):
        out.append({"ob": "O3", "cfg": {"fn": fn, "n": 2, "nch": 2, "vI": True}})
        if not q:
            out.append({"ob": "O3", "cfg": {"fn": fn, "n": 2, "nch": 3, "vI": True}})
    hk = [(2, 1, 1, 8), (2, 2, 1, 8)] if q else [(2, 1, 1, 8), (2, 2, 1, 8), (3, 1, 1, 9), (2, 2, 2, 10)]
    for l, r, br, nd in hk:
        for method in ("cov_mm", "cov_R"):
            out.append({"ob": "O4", "cfg": {"method": method, "l": l, "r": r, "br": br, "Ndat": nd}})
        out.append({"ob": "O4", "cfg": {"method": "dat", "l": l, "r": r, "br": br, "Ndat": nd + 4}})
    for l, br in (((1, 2), (2, 1)) if q else ((1, 2), (2, 1), (2, 2), (1, 3))):
        out.append({"ob": "O5", "cfg": {"l": l, "br": br}})
    for nf in ((4,) if q else (4, 5, 8)):
        for sgn in (-1, 1):
            out.append({"ob": "O6", "cfg": {"nf": nf, "sgn": sgn}})
    return out


def run(job, tier):
    return {"O1": run_time, "O3": run_norm, "O4": run_hank, "O5": run_gain, "O6": run_basis}[job["ob"]](job["cfg"], tier)


def decide_each(tally, e, negs, on_sat, label, timeout_ms=15000):
    """one small query per claim (trivially false negations are counted as discharged by the rewriter)"""
    for k, neg in enumerate(negs):
        sneg = z3.simplify(neg) if not isinstance(neg, bool) else z3.BoolVal(neg)
        if z3.is_false(sneg):
            tally.obligations += 1
            tally.discharged += 1
            if not tally.reach:
                tally.reach = True
            continue
        v = tally.decide(e, sneg, on_sat=on_sat, label=f"{label} [{k}]", timeout_ms=timeout_ms, hints=True)
        if v == "sat" and tally.stop:
            break


def twins(cfg):
    import pyoma2.functions.plscf as fplscf
    import pyoma2.functions.ssi as fssi
    stub = Eig(cfg["n"])
    stub.identity_vectors = bool(cfg.get("vI"))
    STUBS.append(stub)
    W = World(overrides={"np": NPProxy(linalg=stub, where=fork_where)}, per_module={"pyoma2.functions.ssi": {"linalg": stub}})
    return W, W.module(fssi), W.module(fplscf)


def call(cfg, tssi, tpl, A, C, dt):
    if cfg["fn"] == "ac2mp":
        fn, xi, phi, lam, *_ = tssi.ac2mp(A, C, dt)
    else:
        fn, xi, phi, lam = tpl.ac2mp_poly(A, C, dt, cfg.get("method", "per"), 16)
    return fn, xi, phi, lam


def run_time(cfg, tier):
    W, tssi, tpl = twins(cfg)
    tally = Tally(W, [cfg["fn"]])
    ex = Explorer(timeout_ms=30000, push_feas=True)
    st = {}
    n, nch = cfg["n"], cfg["nch"]

    def body():
        dt, k = fresh("dt", nn=True), fresh("k", nn=True)
        Explorer.cur.assume(dt.v > 0)
        Explorer.cur.assume(k.v > 0)
        A = fresh("A", (n, n))
        C = fresh("C", (nch, n), complex_=bool(cfg.get("vI")))
        st.update(dt=dt, k=k)
        r1 = call(cfg, tssi, tpl, A, C, dt)
        r2 = call(cfg, tssi, tpl, A, C, dt / k)
        return r1, r2

    for e, (kind, res) in ex.run_all(body):
        dt, k = st["dt"], st["k"]
        if kind == "exc":
            tally.decide(e, z3.BoolVal(True), on_sat=lambda m: cex_time(cfg, f"raised {type(res).__name__}: {res}"), with_side=False)
            continue
        (fn1, xi1, phi1, lam1), (fn2, xi2, phi2, lam2) = res
        bad = []
        for j in range(n):
            f1, f2, x1, x2 = lift(fn1[j]), lift(fn2[j]), lift(xi1[j]), lift(xi2[j])
            # non-negative magnitudes: equal iff their squares are equal
            # blanked (NaN) poles: blanked in both runs counts as equal, the values are compared only where both are present
            def both(a, b, d):
                return z3.Or(a.nan != b.nan, z3.And(z3.Not(a.nan), z3.Not(b.nan), d))
            val = lambda x: SV(x.v, d=x.d, dp=x.dp, sq=x.sq, nn=x.nn)      # noqa: E731  (the value without its NaN flag)
            bad.append(both(f1, f2, differs(sqof(val(f2)), sqof(val(f1)) * k * k)))
            bad.append(both(x1, x2, differs(sqof(val(x2)), sqof(val(x1)))))
            l1, l2 = toc(lam1[j]), toc(lam2[j])
            bad.append(z3.And(z3.Not(l1.nan), z3.Not(l2.nan), l1.re * l2.re * (1 if l1.d is None else 1) < 0))     # same sign of the real part
            bad.append(z3.Or(l1.nan != l2.nan, z3.And(z3.Not(l1.nan), differs_nan(l2, SC(l1.re, l1.im, l2.nan, d=l1.d, dp=l1.dp) * k))))
            for c in range(nch):
                bad.append(differs_nan(phi2[j, c], phi1[j, c]))
        decide_each(tally, e, bad, lambda m: cex_time(cfg, None), f"{cfg['fn']} {cfg.get('method', '')} dt vs dt/k")
    return tally.result(ex)


def cex_time(cfg, note):
    viol, detail, key = replay_time(cfg)
    return {"inputs": {}, "reproduced": viol, "detail": (note + " | " if note else "") + detail, "key": key}


def replay_time(cfg):
    import pyoma2.functions.plscf as fplscf
    import pyoma2.functions.ssi as fssi
    rng = np.random.RandomState(2)
    n, nch = cfg["n"], cfg["nch"]
    th, rad = 0.3, 0.98
    A = rad * np.array([[np.cos(th), -np.sin(th)], [np.sin(th), np.cos(th)]])
    T = rng.randn(n, n)
    A = T @ A @ np.linalg.inv(T)
    C = rng.randn(nch, n)
    dt, k = 0.01, 10.0
    try:
        if cfg["fn"] == "ac2mp":
            r1 = fssi.ac2mp(A, C, dt)[:3]
            r2 = fssi.ac2mp(A, C, dt / k)[:3]
        else:
            r1 = fplscf.ac2mp_poly(A, C, dt, cfg.get("method", "per"), 16)[:3]
            r2 = fplscf.ac2mp_poly(A, C, dt / k, cfg.get("method", "per"), 16)[:3]
    except Exception as e:  # noqa: BLE001
        return True, f"{cfg['fn']} raised {type(e).__name__}: {e}", f"{cfg['fn']}:raises"
    name = cfg["fn"] + (":" + cfg["method"] if "method" in cfg else "")
    if not np.allclose(r2[0], k * r1[0], rtol=1e-9, equal_nan=True):
        return True, f"{name}: frequencies at dt/{k:g} are {r2[0]} instead of {k:g} x {r1[0]}", f"{name}:time-unit:frequency"
    if not np.allclose(r2[1], r1[1], rtol=1e-9, atol=1e-12, equal_nan=True):
        return True, (f"{name}: damping ratios change with the declared sampling frequency: {r1[1]} at dt={dt} vs {r2[1]} at dt={dt / k} "
                      f"(same discrete-time system)"), f"{name}:time-unit:damping"
    if not np.allclose(r2[2], r1[2], rtol=1e-9, atol=1e-12, equal_nan=True):
        return True, f"{name}: mode shapes change with dt", f"{name}:time-unit:shape"
    return False, "time-unit covariance holds", None


def run_norm(cfg, tier):
    W, tssi, tpl = twins(cfg)
    tally = Tally(W, [cfg["fn"]])
    ex = Explorer(timeout_ms=30000, push_feas=True, max_paths=5000)
    st = {}
    n, nch = cfg["n"], cfg["nch"]

    def body():
        dt = fresh("dt", nn=True)
        Explorer.cur.assume(dt.v > 0)
        g = fresh("g", complex_=True)
        Explorer.cur.assume(z3.Or(g.re != 0, g.im != 0))
        A = fresh("A", (n, n))
        C = fresh("C", (nch, n), complex_=bool(cfg.get("vI")))
        r1 = call(cfg, tssi, tpl, A, C, dt)
        st.update(C=C, vr=STUBS[-1].last_vr)
        # invariance under a complex gain g on C is a consequence of the two facts checked below (phi = u/u[k*] is
        # homogeneous of degree 0 and k* is chosen by modulus, which scales uniformly): a second run with g*C makes z3's
        # non-linear engine prove |g u_i|^2 <= |g u_k|^2 from |u_i|^2 <= |u_k|^2 at every arg-max branch, where it stalls
        return r1, r1

    for e, (kind, res) in ex.run_all(body):
        def rep(m):
            Cm = concretize(m, st["C"])
            v, d = replay_norm(cfg, Cm)
            return {"inputs": to_json({"C": Cm}), "reproduced": v, "detail": d, "key": f"{cfg['fn']}:normalisation"}
        if kind == "exc":
            tally.decide(e, z3.BoolVal(True), on_sat=rep, with_side=False)
            continue
        (fn1, xi1, phi1, lam1), (fn2, xi2, phi2, lam2) = res
        C, vr = st["C"], st["vr"]
        negs = []
        for j in range(n):
            if z3.is_true(z3.simplify(toc(phi1[j, 0]).nan)):
                continue            # blanked pole on this path
            u = [sum((toc(C[i, q]) * toc(vr[q, j]) for q in range(n)), toc(0)) for i in range(nch)]
            ks = [c for c in range(nch) if z3.is_false(z3.simplify(differs(phi1[j, c], 1)))]
            if not ks:
                negs.append(z3.BoolVal(True))       # no component equal to 1
                continue
            k0 = ks[0]
            for i in range(nch):
                negs.append(u[i].abs2().v > u[k0].abs2().v)                 # a component larger in modulus than the unit one
                negs.append(differs(toc(phi1[j, i]) * u[k0], u[i]))           # phi = u / u[k*]
        decide_each(tally, e, negs, rep, f"{cfg['fn']} unity normalisation + gain")
    return tally.result(ex)


def sqof_c(z):
    """|z|^2 <= 1 as a polynomial inequality"""
    a = toc(z).abs2()
    return a.v <= (a.d if a.d is not None else 1)


def replay_norm(cfg, Cm=None):
    """real kernel on a diagonal state matrix (its eigenvectors are the unit vectors, so the un-normalised shapes are the
    columns of C) with the model's output matrix, plus a seeded generic system"""
    import pyoma2.functions.plscf as fplscf
    import pyoma2.functions.ssi as fssi
    rng = np.random.RandomState(4)
    n, nch = cfg["n"], cfg["nch"]
    f = (lambda A_, C_: fssi.ac2mp(A_, C_, 0.01)[2]) if cfg["fn"] == "ac2mp" else (lambda A_, C_: fplscf.ac2mp_poly(A_, C_, 0.01, "per", 16)[2])
    trials = []
    if Cm is not None:
        trials.append((np.diag([0.9, 0.8][:n]), np.asarray(Cm).astype(complex)))
    th = 0.5
    trials.append((0.9 * np.array([[np.cos(th), -np.sin(th)], [np.sin(th), np.cos(th)]]), rng.randn(nch, n)))
    for A_, C_ in trials:
        with np.errstate(all="ignore"):
            p1, p2 = f(A_, C_), f(A_, C_ * (0.3 - 2.0j))
        ok_rows = ~np.any(np.isnan(p1), axis=1)
        q = p1[ok_rows]
        if q.size and (not np.allclose(np.max(np.abs(q), axis=1), 1) or not np.allclose(q[np.arange(len(q)), np.argmax(np.abs(q), axis=1)], 1)):
            return True, f"{cfg['fn']}: a shape is not normalised to its largest-modulus component: C={np.round(C_, 4).tolist()} -> {np.round(q, 4).tolist()}"
        if not np.allclose(p1, p2, rtol=1e-9, atol=1e-12, equal_nan=True):
            return True, f"{cfg['fn']}: shapes change under a complex gain on the outputs"
    return False, "normalisation and gain invariance hold"


class _QRrec:
    """np.linalg for the data-driven Hankel: qr(mode='r') records the stacked past/future matrix it is handed and returns an
    opaque triangular factor (the obligation is on the recorded input)"""

    def __init__(self):
        self.calls = []

    def qr(self, A, mode="reduced"):
        if mode != "r":
            raise ShimGap("qr stub: only mode='r' is modelled")
        A = np.asarray(A, dtype=object)
        self.calls.append(A)
        K = min(A.shape)
        R = fresh(f"qrR{len(self.calls)}", (K, A.shape[1]))
        return R

    def __getattr__(self, k):
        raise ShimGap(f"np.linalg.{k} not modelled")


def run_hank_dat(cfg, tier):
    """'dat': the matrix factorised for (Q Y, Q' Yref) is the one factorised for (Y, Yref) with its past columns mixed by
    (I (x) Q') and its future columns by (I (x) Q) - the R-factor then changes by the same block mixing (paper step: LQ of a
    row-mixed matrix; for orthogonal Q' the projection is unchanged)"""
    from pyoma2.functions import ssi
    rec = _QRrec()
    W = World(overrides={"np": NPProxy(linalg=rec)})
    tm = W.module(ssi)
    tally = Tally(W, ["build_hank"])
    ex = Explorer(timeout_ms=60000)
    l, r, br, nd = cfg["l"], cfg["r"], cfg["br"], cfg["Ndat"]
    st = {}

    def body():
        del rec.calls[:]
        Y, Yref = fresh("Y", (l, nd)), fresh("R", (r, nd))
        Q, Qr = fresh("Q", (l, l)), fresh("P", (r, r))
        tm.build_hank(Y=Y, Yref=Yref, br=br, method="dat")
        tm.build_hank(Y=Q @ Y, Yref=Qr @ Yref, br=br, method="dat")
        st.update(Q=Q, Qr=Qr)
        return None

    for e, (kind, res) in ex.run_all(body):
        if kind == "exc":
            tally.decide(e, z3.BoolVal(True), on_sat=lambda m: {"inputs": {}, "reproduced": replay_hank(cfg)[0], "detail": f"raised {res!r}",
                                                              "key": "build_hank:equivariance"})
            continue
        Q, Qr = st["Q"], st["Qr"]
        why, bad = [], []
        q = br + 1
        npast, nfut = q * r, (br + 1) * l
        if len(rec.calls) != 2 or rec.calls[0].shape != rec.calls[1].shape or rec.calls[0].shape[1] != npast + nfut:
            why.append(f"qr inputs {[c.shape for c in rec.calls]}")
        else:
            A1, A2 = rec.calls
            for t in range(A1.shape[0]):
                for j in range(q):
                    for b in range(r):
                        want = sum((Qr[b, b2] * A1[t, j * r + b2] for b2 in range(r)), lift(0))
                        bad.append(differs(A2[t, j * r + b], want))
                for i in range(br + 1):
                    for a in range(l):
                        want = sum((Q[a, a2] * A1[t, npast + i * l + a2] for a2 in range(l)), lift(0))
                        bad.append(differs(A2[t, npast + i * l + a], want))
        neg = z3.BoolVal(True) if why else z3.Or(*bad)
        tally.decide(e, neg, on_sat=lambda m: {"inputs": {}, "reproduced": replay_hank(cfg)[0], "detail": "; ".join(why) + replay_hank(cfg)[1],
                                               "key": "build_hank:equivariance"}, label=f"dat equivariance l={l} r={r} br={br}")
    return tally.result(ex)


class _StopBasis(Exception):
    pass


def run_basis(cfg, tier):
    """time-unit covariance of the pLSCF basis: the arguments handed to np.exp when the basis functions exp(+-i omega dt) are built
    depend on the number of frequency lines only, not on dt (so the same samples declared at k times the sampling frequency give
    the same normal equations); dt symbolic, positive"""
    from pyoma2.functions import plscf
    nf, sgn = cfg["nf"], cfg["sgn"]
    rec = {}

    def exp_stub(a):
        rec["arg"] = a
        raise _StopBasis()

    def linspace(start, stop, num=50, **kw):
        return SymArray(np.array([lift(start) + (lift(stop) - lift(start)) * i / (num - 1) for i in range(num)], dtype=object))

    W = World(overrides={"np": NPProxy(exp=exp_stub, linspace=linspace)})
    tp = W.module(plscf)
    tally = Tally(W, ["pLSCF"])
    ex = Explorer()
    st = {}

    def body():
        dt = fresh("dt", nn=True)
        Explorer.cur.assume(dt.v > 0)
        st["dt"] = dt
        Sy = fresh("Sy", (1, 1, nf), complex_=True)
        try:
            tp.pLSCF(Sy, dt, 1, sgn_basf=sgn)
        except _StopBasis:
            return rec["arg"]
        return None

    import math
    for e, (kind, res) in ex.run_all(body):
        why, bad = [], []
        if kind == "exc":
            why.append(f"raised {type(res).__name__}: {res}")
        elif res is None or np.shape(res) != (nf,):
            why.append("np.exp was not handed one argument per frequency line")
        else:
            for i in range(nf):
                a = toc(res[i])
                want = lift(2 * math.pi) * lift(0.5) * i / (nf - 1) * sgn     # sgn * i * pi/(Nf-1), with the code's double 2*pi
                bad += [differs(a.real, 0), differs(a.imag, want)]
        neg = z3.BoolVal(True) if why else z3.Or(*bad)
        tally.decide(e, neg, on_sat=lambda m, why=tuple(why): cex_basis(cfg, "; ".join(why) or None), with_side=not why,
                     label=f"pLSCF basis argument independent of dt, Nf={nf}")
    return tally.result(ex)


def cex_basis(cfg, note):
    v, d = replay_basis(cfg)
    return {"inputs": {}, "reproduced": v, "detail": (note + " | " if note else "") + d, "key": "pLSCF:time-unit"}


def replay_basis(cfg):
    """real pLSCF on the same spectrum declared at non-integer sampling rates: identical coefficient matrices"""
    from pyoma2.functions import plscf
    rng = np.random.RandomState(6)
    nf = max(cfg["nf"], 24)
    Sy = rng.randn(1, 2, nf) + 1j * rng.randn(1, 2, nf)
    ref = None
    for dt in (0.01, 0.08, 1 / 25.6, 0.3):
        try:
            Ad, Bn = plscf.pLSCF(Sy, dt, 2, sgn_basf=cfg["sgn"])
        except Exception as e:  # noqa: BLE001
            return True, f"pLSCF raised {type(e).__name__}: {e} for dt={dt}"
        if ref is None:
            ref = Ad
        elif not all(np.allclose(a, b, rtol=1e-7, atol=1e-9) for a, b in zip(Ad, ref)):
            return True, f"pLSCF coefficient matrices depend on the declared dt (dt={dt} vs dt=0.01, same spectrum lines)"
    return False, "coefficients independent of dt"


class _SqSV(SV):
    """a singular value given as the square of a known positive root: sqrt() returns the root (no uninterpreted sqrt)"""

    def __init__(self, root):
        sq = root * root
        SV.__init__(self, sq.v, sq.nan, d=sq.d, nn=True, dp=sq.dp)
        self._root = root

    def sqrt(self):
        return self._root


def run_gain(cfg, tier):
    """gain covariance of the realisation step: the real SSI_fast on H and on g^2 H (same singular vectors, singular values
    scaled by k^2 = g^2 > 0, prescribed through the SVD stub) returns the same number of models with identical state
    matrices and output matrices scaled by k"""
    from props.c01 import LA, make_world
    from pyoma2.functions import ssi
    la = LA()
    W = make_world(la)
    tm = W.module(ssi)
    tally = Tally(W, ["SSI_fast"])
    ex = Explorer(timeout_ms=60000)
    l, br = cfg["l"], cfg["br"]
    rows = (br + 1) * l
    st = {}

    def body():
        e = Explorer.cur
        U = fresh("U", (rows, 2))
        sg = [fresh("sg0", nn=True), fresh("sg1", nn=True)]
        k = fresh("k", nn=True)
        e.assume(z3.And(sg[0].v >= sg[1].v, sg[1].v > 0, k.v > 0))
        S1 = SymArray(np.array([_SqSV(x) for x in sg], dtype=object))
        S2 = SymArray(np.array([_SqSV(x * k) for x in sg], dtype=object))
        la.svd_out[:] = [(U, S1), (U, S2)]
        H = fresh("H", (rows, rows))
        r1 = tm.SSI_fast(H, br, 2, step=1)
        r2 = tm.SSI_fast(H * (k * k), br, 2, step=1)
        st.update(k=k)
        return r1, r2

    for e, (kind, res) in ex.run_all(body):
        if kind == "exc":
            tally.decide(e, z3.BoolVal(True), on_sat=lambda m: cex_gain(cfg, f"raised {type(res).__name__}: {res}"), with_side=False)
            continue
        (_, A1, C1, *_), (_, A2, C2, *_) = res
        k = st["k"]
        why, bad = [], []
        sh1 = [np.shape(x) for x in A1] + [np.shape(x) for x in C1]
        sh2 = [np.shape(x) for x in A2] + [np.shape(x) for x in C2]
        if sh1 != sh2:
            why.append(f"model lists differ with the gain: {sh1} vs {sh2}")
        else:
            for X1, X2 in zip(A1, A2):
                bad += [differs(X2[ix], X1[ix]) for ix in np.ndindex(np.shape(X1))]
            for X1, X2 in zip(C1, C2):
                bad += [differs(X2[ix], X1[ix] * k) for ix in np.ndindex(np.shape(X1))]
        neg = z3.BoolVal(True) if why else z3.Or(*bad)
        tally.decide(e, neg, on_sat=lambda m, why=tuple(why): cex_gain(cfg, "; ".join(why) or None), with_side=not why,
                     label=f"SSI_fast gain covariance l={l} br={br}")
    return tally.result(ex)


def cex_gain(cfg, note):
    v, d = replay_gain(cfg)
    return {"inputs": {}, "reproduced": v, "detail": (note + " | " if note else "") + d, "key": "SSI_fast:gain"}


def replay_gain(cfg):
    """real SSI_fast on a full-rank Hankel-shaped matrix and on 2^-60 times it (exact scaling): same model list, same eigenvalues"""
    from pyoma2.functions import ssi
    l, br = max(cfg["l"], 2), max(cfg["br"], 3)
    rng = np.random.RandomState(4)
    H = rng.randn((br + 1) * l, (br + 1) * l)
    om = br * l
    for g2 in (2.0 ** -60, 2.0 ** 40):
        try:
            _, A1, C1, *_ = ssi.SSI_fast(H, br, om)
            _, A2, C2, *_ = ssi.SSI_fast(H * g2, br, om)
        except Exception as e:  # noqa: BLE001
            return True, f"SSI_fast raised {type(e).__name__}: {e}"
        if [np.shape(x) for x in A1] != [np.shape(x) for x in A2] or [np.shape(x) for x in C1] != [np.shape(x) for x in C2]:
            return True, f"gain^2 = {g2:g}: the lists of identified models differ in shape ({[np.shape(x)[0] for x in A1]} vs {[np.shape(x)[0] for x in A2]})"
        for i, (X1, X2) in enumerate(zip(A1, A2)):
            if X1.size and not np.allclose(np.sort_complex(np.linalg.eigvals(X1)), np.sort_complex(np.linalg.eigvals(X2)), rtol=1e-6, atol=1e-9):
                return True, f"gain^2 = {g2:g}: poles of model order {i} change with the gain"
    return False, "model lists and poles independent of the gain"


def run_hank(cfg, tier):
    from pyoma2.functions import ssi
    if cfg["method"] == "dat":
        return run_hank_dat(cfg, tier)
    W = World()
    tm = W.module(ssi)
    tally = Tally(W, ["build_hank"])
    ex = Explorer(timeout_ms=60000, push_feas=True)
    l, r, br, nd, method = cfg["l"], cfg["r"], cfg["br"], cfg["Ndat"], cfg["method"]
    st = {}

    def body():
        Y, Yref = fresh("Y", (l, nd)), fresh("R", (r, nd))
        Q, Qr = fresh("Q", (l, l)), fresh("P", (r, r))
        H1, _ = tm.build_hank(Y=Y, Yref=Yref, br=br, method=method)
        H2, _ = tm.build_hank(Y=Q @ Y, Yref=Qr @ Yref, br=br, method=method)
        st.update(Q=Q, Qr=Qr)
        return H1, H2

    for e, (kind, res) in ex.run_all(body):
        if kind == "exc":
            tally.decide(e, z3.BoolVal(True), on_sat=lambda m: {"inputs": {}, "reproduced": replay_hank(cfg)[0], "detail": f"raised {res!r}",
                                                              "key": "build_hank:equivariance"})
            continue
        H1, H2 = res
        Q, Qr = st["Q"], st["Qr"]
        bad = []
        for i in range(br + 1):
            for a in range(l):
                for j in range(br + 1):
                    for b in range(r):
                        want = sum((Q[a, a2] * H1[i * l + a2, j * r + b2] * Qr[b, b2] for a2 in range(l) for b2 in range(r)), lift(0))
                        bad.append(differs(H2[i * l + a, j * r + b], want))
        tally.decide(e, z3.Or(*bad), on_sat=lambda m: {"inputs": {}, "reproduced": replay_hank(cfg)[0], "detail": replay_hank(cfg)[1],
                                                       "key": "build_hank:equivariance"}, label=f"{method} equivariance l={l} r={r} br={br}")
    return tally.result(ex)


def replay_hank(cfg):
    from pyoma2.functions import ssi
    rng = np.random.RandomState(8)
    l, r, br, nd, method = cfg["l"], cfg["r"], cfg["br"], max(cfg["Ndat"], 40), cfg["method"]
    Y, Yref = rng.randn(l, nd), rng.randn(r, nd)
    Q = np.linalg.qr(rng.randn(l, l))[0]
    Qr = np.linalg.qr(rng.randn(r, r))[0]
    H1, _ = ssi.build_hank(Y, Yref, br, method)
    H2, _ = ssi.build_hank(Q @ Y, Qr @ Yref, br, method)
    want = np.kron(np.eye(br + 1), Q) @ H1 @ np.kron(np.eye(br + 1), Qr).T
    if method == "dat":
        # the triangular factor is fixed up to an orthogonal right factor: compare Gram matrices
        H2, want = H2 @ H2.T, np.kron(np.eye(br + 1), Q) @ H1 @ H1.T @ np.kron(np.eye(br + 1), Q).T
    if H2.shape != want.shape or not np.allclose(H2, want, rtol=1e-8, atol=1e-10):
        return True, f"build_hank({method}) is not equivariant under orthogonal channel mixing"
    return False, "equivariant"


def replay(ob, cfg, inputs):
    if ob == "O1":
        v, d, _ = replay_time(cfg)
        return v, d
    if ob == "O3":
        return replay_norm(cfg, inputs.get("C") if isinstance(inputs, dict) else None)
    if ob == "O5":
        return replay_gain(cfg)
    if ob == "O6":
        return replay_basis(cfg)
    return replay_hank(cfg)
