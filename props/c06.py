"""C06 — FDD picks the dominant line in the band and its singular vector."""
import itertools

import numpy as np
import z3

from symx.arr import NPProxy, SymArray, fresh
from symx.core import SB, SC, SV, Explorer, ShimGap, concretize, differs, lift, toc
from symx.harness import Tally, to_json
from symx.twin import World

PROPERTY = "C06"
META = {
    "explanation": "The real fdd.FDD_mpe runs on a symbolic frequency grid freq[k] = k*df (df > 0 symbolic), symbolic singular "
                   "values (first >= second > 0 at every line), symbolic complex singular vectors, a symbolic requested "
                   "frequency inside the grid and a symbolic band half-width DF >= df.  Per path z3 shows: the returned "
                   "frequency is a grid line within half a line spacing of the band; its s1/s2 ratio is >= that of every line "
                   "strictly inside the band by more than half a spacing (lines the nearest-line rounding may include or exclude "
                   "are not judged); the shape is Svec[0,:,k*] divided by its largest-modulus component (component equal to 1, "
                   "all moduli <= 1).  fdd.SD_svalsvec runs with np.linalg.svd as a contract stub: stored values are the square "
                   "roots of the singular values on the diagonal, zeros elsewhere, stored vectors are U^H.  The FDD / FDD_MS run "
                   "and mpe methods and the first stage of EFDD_mpe are shown to hand the stored decomposition, the grid and the "
                   "user's DF to FDD_mpe unchanged.",
    "bounds": {"quick": {"lines": "4", "channels": "2..3", "requests": "1", "svalsvec": "2x2 and 3x2 spectra, 2 lines"},
               "thorough": {"lines": "4..6", "channels": "2..3", "requests": "1..2"}},
    "stubs": ["np.linalg.svd: fresh U (symbolic complex), S (symbolic >= 0, non-increasing), V; contract U diag(S) V^H = M, U unitary "
              "(only layout obligations use it)", "np.sqrt of a symbol: shared uninterpreted uf_sqrt"],
    "assumptions": ["second singular value > 0 at every line", "the singular vector at the chosen line is non-zero",
                    "unitarity / ordering / non-negativity of the stored decomposition follow from the SVD contract and the "
                    "monotonicity of sqrt (paper step)"],
}


def jobs(tier):
    out = []
    nfs = (4,) if tier == "quick" else (4, 5, 6)
    for nf in nfs:
        for nch in (2, 3):
            if nf == 6 and nch == 3:
                continue
            out.append({"ob": "O1", "cfg": {"nf": nf, "nch": nch, "nreq": 1}})
    if tier != "quick":
        out.append({"ob": "O1", "cfg": {"nf": 4, "nch": 2, "nreq": 2}})
    for nr, nc in ((2, 2), (3, 2), (3, 3)):
        out.append({"ob": "O2", "cfg": {"nr": nr, "nc": nc, "nf": 2}})
    for cls in ("FDD", "FDD_MS", "EFDD"):
        out.append({"ob": "O3", "cfg": {"cls": cls}})
    return out


def run(job, tier):
    return {"O1": run_mpe, "O2": run_svd, "O3": run_wiring}[job["ob"]](job["cfg"], tier)


def absz(t):
    return z3.If(t >= 0, t, -t)


# ------------------------------------------------------------------------------------------ O1
def run_mpe(cfg, tier):
    from pyoma2.functions import fdd
    W = World()
    tf = W.module(fdd)
    nf, nch, nreq = cfg["nf"], cfg["nch"], cfg["nreq"]
    tally = Tally(W, ["FDD_mpe"])
    ex = Explorer(timeout_ms=30000, max_paths=200000, split_atoms=True, feas_timeout_ms=3000)
    st = {}

    def body():
        df = fresh("df", nn=True)
        Explorer.cur.assume(df.v > 0)
        freq = SymArray(np.array([df * k for k in range(nf)], dtype=object))
        S1 = [SV(z3.Real(f"s1_{k}"), nn=True) for k in range(nf)]
        S2 = [SV(z3.Real(f"s2_{k}"), nn=True) for k in range(nf)]
        for k in range(nf):
            Explorer.cur.assume(S2[k].v > 0)
            Explorer.cur.assume(S1[k].v >= S2[k].v)
        Sval = np.empty((nch, nch, nf), dtype=object)
        for ix in np.ndindex(Sval.shape):
            Sval[ix] = lift(0.0)
        for k in range(nf):
            Sval[0, 0, k], Sval[1, 1, k] = S1[k], S2[k]
        Svec = fresh("U", (nch, nch, nf), complex_=True)
        sel = [fresh(f"sel_{m}") for m in range(nreq)]
        DF = fresh("DF", nn=True)
        Explorer.cur.assume(DF.v >= df.v)
        for s in sel:
            Explorer.cur.assume(z3.And(s.v >= 0, s.v <= df.v * (nf - 1)))
        st.update(df=df, freq=freq, S1=S1, S2=S2, Svec=Svec, sel=sel, DF=DF)
        SvalA = SymArray(Sval)
        # frame condition: the stored decomposition handed to the extraction must come back untouched (cell identity)
        st["frame"] = [(nm, a, np.array(a, dtype=object).view(np.ndarray).copy()) for nm, a in (("Sval", SvalA), ("Svec", Svec), ("freq", freq))]
        return tf.FDD_mpe(SvalA, Svec, freq, list(sel), DF=DF)

    for e, (kind, res) in ex.run_all(body):
        df, freq, S1, S2, Svec, sel, DF = (st[k] for k in ("df", "freq", "S1", "S2", "Svec", "sel", "DF"))
        if kind == "exc":
            tally.decide(e, z3.BoolVal(True), on_sat=lambda m: cex_mpe(cfg, st, m, f"raised {type(res).__name__}: {res}"), label="no exception")
            continue
        Fn, Phi = res
        touched = [f"{nm}{list(ix)}" for nm, a, a0 in st["frame"] for ix in np.ndindex(a0.shape)
                   if np.asarray(a, dtype=object).view(np.ndarray)[ix] is not a0[ix]]
        if touched:
            Svec = SymArray(st["frame"][1][2])
            st["Svec"] = Svec
            tally.decide(e, z3.BoolVal(True), on_sat=lambda m: cex_mpe(cfg, st, m, f"FDD_mpe wrote into its inputs: {touched[:4]}"),
                         label="inputs are not modified")
            continue
        if np.shape(Fn) != (nreq,) or np.shape(Phi) != (nch, nreq):
            tally.decide(e, z3.BoolVal(True), on_sat=lambda m: cex_mpe(cfg, st, m, f"shapes {np.shape(Fn)} {np.shape(Phi)}"))
            continue
        parts, why = [], None
        for m in range(nreq):
            # the returned frequency is one of the grid terms (the code indexes the grid with a concrete index per path)
            ks = [k for k in range(nf) if z3.eq(z3.simplify(lift(Fn[m]).v), z3.simplify(freq[k].v))]
            if len(ks) != 1:
                why = f"returned frequency {Fn[m]} is not a grid line term"
                break
            k = ks[0]
            fk = df.v * k
            parts.append(z3.And(fk >= sel[m].v - DF.v - df.v / 2, fk <= sel[m].v + DF.v + df.v / 2))
            for q in range(nf):
                fq = df.v * q
                inside = z3.And(fq > sel[m].v - DF.v + df.v / 2, fq < sel[m].v + DF.v - df.v / 2)
                parts.append(z3.Implies(inside, S1[k].v * S2[q].v >= S1[q].v * S2[k].v))
            u = [Svec[0, c, k] for c in range(nch)]
            n2 = [uc.re * uc.re + uc.im * uc.im for uc in u]
            shape = []
            for j in range(nch):
                cond = [n2[j] >= n2[c] for c in range(nch)] + [n2[j] > 0]
                for c in range(nch):
                    cond.append(z3.Not(differs(toc(Phi[c, m]) * u[j], u[c])))
                shape.append(z3.And(*cond))
            nonzero = z3.Or(*[v > 0 for v in n2])
            parts.append(z3.Implies(nonzero, z3.Or(*shape)))
        neg = z3.BoolVal(True) if why else z3.Not(z3.And(*parts))
        # model picker: keep the counterexample away from ties and band edges so that it replays in float64
        sep = [df.v >= z3.Q(1, 4), df.v <= 4]
        for a in range(nf):
            sep += [S2[a].v >= z3.Q(1, 2), S1[a].v <= 8]
            for b in range(a + 1, nf):
                dd = S1[a].v * S2[b].v - S1[b].v * S2[a].v
                sep.append(z3.Or(dd >= z3.Q(1, 20), dd <= -z3.Q(1, 20)))
            for s_ in sel:
                for edge in (s_.v - DF.v - df.v / 2, s_.v - DF.v + df.v / 2, s_.v + DF.v - df.v / 2, s_.v + DF.v + df.v / 2,
                             s_.v - DF.v, s_.v + DF.v):
                    g = df.v * a - edge
                    sep.append(z3.Or(g >= df.v / 50, g <= -df.v / 50))
        tally.decide(e, neg, robust=z3.And(neg, *sep), on_sat=lambda m, why=why: cex_mpe(cfg, st, m, why), label=f"nf={nf} nch={nch}")
    return tally.result(ex)


def cex_mpe(cfg, st, m, note):
    nf = cfg["nf"]
    inputs = {"df": concretize(m, st["df"]), "S1": [concretize(m, v) for v in st["S1"]], "S2": [concretize(m, v) for v in st["S2"]],
              "Svec": concretize(m, st["Svec"]), "sel": [concretize(m, v) for v in st["sel"]], "DF": concretize(m, st["DF"])}
    viol, detail, key = replay_mpe(cfg, inputs)
    return {"inputs": to_json(inputs), "reproduced": viol, "detail": (note + " | " if note else "") + detail, "key": key}


def replay_mpe(cfg, inputs):
    from pyoma2.functions import fdd, gen
    nf, nch = cfg["nf"], cfg["nch"]
    df = float(inputs["df"])
    freq = df * np.arange(nf)
    Sval = np.zeros((nch, nch, nf))
    Sval[0, 0, :], Sval[1, 1, :] = inputs["S1"], inputs["S2"]
    Svec = np.array(inputs["Svec"]).astype(complex)
    sel = [float(s) for s in inputs["sel"]]
    DF = float(inputs["DF"])
    before = (Sval.copy(), Svec.copy(), freq.copy())
    try:
        with np.errstate(all="ignore"):
            Fn, Phi = fdd.FDD_mpe(Sval, Svec, freq, list(sel), DF=DF)
    except Exception as e:  # noqa: BLE001
        return True, f"FDD_mpe(sel={sel}, DF={DF:.6g}, df={df:.6g}, nf={nf}) raised {type(e).__name__}: {e}", "FDD_mpe:raises"
    for nm, a0, a1 in zip(("S_val", "S_vec", "freq"), before, (Sval, Svec, freq)):
        if not np.array_equal(a0, a1, equal_nan=True):
            return True, f"FDD_mpe(sel={sel}, DF={DF:.6g}) modified the stored {nm} it was handed (no longer the decomposition of the spectrum)", "FDD_mpe:modifies-input"
    Svec = before[1]
    ratio = Sval[0, 0, :] / Sval[1, 1, :]
    eps = 1e-9
    for m, s in enumerate(sel):
        ks = [k for k in range(nf) if abs(freq[k] - Fn[m]) <= eps * (1 + abs(Fn[m]))]
        if not ks:
            return True, f"returned frequency {Fn[m]} is not a grid line", "FDD_mpe:not-a-line"
        k = ks[0]
        if not (s - DF - df / 2 - eps <= freq[k] <= s + DF + df / 2 + eps):
            return True, f"sel={s:.6g} DF={DF:.6g} df={df:.6g}: returned line {k} (f={freq[k]:.6g}) lies outside the band", "FDD_mpe:outside-band"
        for q in range(nf):
            if s - DF + df / 2 + eps < freq[q] < s + DF - df / 2 - eps and ratio[q] > ratio[k] * (1 + 1e-9):
                edge = "grid-end" if q == nf - 1 else "interior"
                return True, (f"sel={s:.6g} DF={DF:.6g} df={df:.6g} nf={nf}: returned line {k} (ratio {ratio[k]:.6g}) although line {q} "
                              f"inside the band has ratio {ratio[q]:.6g}"), f"FDD_mpe:not-dominant:{edge}"
        u = Svec[0, :, k]
        if np.any(u != 0):
            j = int(np.argmax(np.abs(u)))
            if not np.allclose(Phi[:, m], u / u[j], rtol=1e-9, atol=1e-12) or abs(gen.MAC(Phi[:, m], u) - 1) > 1e-9:
                return True, f"mode shape {Phi[:, m]} is not the unit-normalised stored vector {u / u[j]} of line {k}", "FDD_mpe:shape"
    return False, "dominant line and its vector", None


# ------------------------------------------------------------------------------------------ O2
class SVDStub:
    def __init__(self):
        self.calls = []
        self.hermitian_claims = []

    def svd(self, M, full_matrices=True, compute_uv=True, hermitian=False):
        """documented contract of np.linalg.svd; `hermitian=True` additionally REQUIRES a Hermitian argument (NumPy then
        works from the lower triangle only) - recorded so that the harness can demand it"""
        if not compute_uv or not full_matrices:
            raise ShimGap("svd stub: only full_matrices=True, compute_uv=True are modelled")
        M = np.asarray(M, dtype=object)
        nr, nc = M.shape
        self.hermitian_claims.append((M, bool(hermitian)))
        i = len(self.calls)
        U = fresh(f"svdU{i}", (nr, nr), complex_=True)
        S = SymArray(np.array([SV(z3.Real(f"svdS{i}_{q}"), nn=True) for q in range(min(nr, nc))], dtype=object))
        V = fresh(f"svdV{i}", (nc, nc), complex_=True)
        for q in range(min(nr, nc)):
            Explorer.cur.add_def(S[q].v >= 0)
            if q:
                Explorer.cur.add_def(S[q - 1].v >= S[q].v)
        self.calls.append((M, U, S, V))
        return U, S, V

    def __getattr__(self, k):
        raise NotImplementedError(f"np.linalg.{k} is not modelled in this harness")


def run_svd(cfg, tier):
    from pyoma2.functions import fdd
    stub = SVDStub()
    W = World(overrides={"np": NPProxy(linalg=stub)})
    tf = W.module(fdd)
    nr, nc, nf = cfg["nr"], cfg["nc"], cfg["nf"]
    tally = Tally(W, ["SD_svalsvec"])
    ex = Explorer(timeout_ms=20000)
    st = {}

    def body():
        SD = fresh("SD", (nr, nc, nf), complex_=True)
        st["SD"] = SD
        stub.calls.clear()
        stub.hermitian_claims.clear()
        return tf.SD_svalsvec(SD)

    sqrt = z3.Function("uf_sqrt", z3.RealSort(), z3.RealSort())
    for e, (kind, res) in ex.run_all(body):
        if kind == "exc":
            tally.decide(e, z3.BoolVal(True), on_sat=lambda m: cex_svd(cfg, f"raised {type(res).__name__}: {res}"))
            continue
        S_val, S_vec = res
        why = None
        bad = []
        if np.shape(S_val) != (nc, nc, nf) or np.shape(S_vec) != (nr, nr, nf) or len(stub.calls) != nf:
            why = f"shapes {np.shape(S_val)} {np.shape(S_vec)} / {len(stub.calls)} SVD calls for {nf} lines"
        else:
            for M, herm in stub.hermitian_claims:
                if herm:
                    # the fast path is only valid if the argument is Hermitian for every input
                    if M.shape[0] != M.shape[1]:
                        bad.append(z3.BoolVal(True))
                    else:
                        bad += [differs(M[a, b], toc(M[b, a]).conjugate()) for a in range(M.shape[0]) for b in range(M.shape[1])]
            for f in range(nf):
                M, U, S, V = stub.calls[f]
                # the SVD is taken of the spectral matrix at line f
                for a in range(nr):
                    for b in range(nc):
                        bad.append(differs(M[a, b], st["SD"][a, b, f]))
                for a in range(nc):
                    for b in range(nc):
                        v = lift(S_val[a, b, f])
                        if a == b:
                            bad.append(z3.Or(v.nan, v.z != sqrt(S[a].v)))
                        else:
                            bad.append(z3.Or(v.nan, v.z != 0))
                for a in range(nr):
                    for b in range(nr):
                        bad.append(differs(S_vec[a, b, f], U[b, a].conjugate()))
        neg = z3.BoolVal(True) if why else z3.Or(*bad)
        tally.decide(e, neg, on_sat=lambda m, why=why: cex_svd(cfg, why), label=f"SD_svalsvec {nr}x{nc}x{nf}")
    return tally.result(ex)


def cex_svd(cfg, note):
    viol, detail, key = replay_svd(cfg, {})
    return {"inputs": {}, "reproduced": viol, "detail": (note + " | " if note else "") + detail, "key": key}


def replay_svd(cfg, inputs):
    from pyoma2.functions import fdd
    nr, nc, nf = cfg["nr"], cfg["nc"], cfg["nf"]
    rng = np.random.RandomState(5)
    SD = rng.randn(nr, nc, nf) + 1j * rng.randn(nr, nc, nf)
    try:
        S_val, S_vec = fdd.SD_svalsvec(SD)
    except Exception as e:  # noqa: BLE001
        return True, f"SD_svalsvec raised {type(e).__name__}: {e}", "SD_svalsvec:raises"
    if S_val.shape != (nc, nc, nf) or S_vec.shape != (nr, nr, nf):
        return True, f"shapes {S_val.shape} {S_vec.shape}", "SD_svalsvec:shape"
    for f in range(nf):
        U, S, Vh = np.linalg.svd(SD[:, :, f])
        d = np.diag(S_val[:, :, f])
        off = S_val[:, :, f] - np.diag(d)
        if np.any(np.abs(off) > 1e-12) or np.any(d < 0) or np.any(np.diff(d) > 1e-12):
            return True, "stored singular values are not a non-negative, non-increasing diagonal", "SD_svalsvec:values"
        if not (np.allclose(d, np.sqrt(S)) or np.allclose(d, S)):
            return True, f"stored values {d} are neither the singular values {S} nor their square roots", "SD_svalsvec:values"
        Q = S_vec[:, :, f]
        if not np.allclose(Q @ Q.conj().T, np.eye(nr), atol=1e-9):
            return True, "stored vectors are not unitary", "SD_svalsvec:vectors"
        # rows of the stored matrix are the conjugated left singular vectors (up to a phase)
        for q in range(min(nr, nc)):
            if abs(abs(np.vdot(Q[q, :].conj(), U[:, q])) - 1) > 1e-8:
                return True, f"stored row {q} is not the conjugated singular vector {q}", "SD_svalsvec:vectors"
    return False, "faithful decomposition", None


# ------------------------------------------------------------------------------------------ O3
class _O:
    pass


def run_wiring(cfg, tier):
    import pyoma2.algorithms.fdd as afdd
    rec = {}
    marker_mpe = (object(), object())

    def fake_mpe(Sval, Svec, freq, sel_freq, DF=0.1):
        rec.update(Sval=Sval, Svec=Svec, freq=freq, sel_freq=sel_freq, DF=DF)
        return marker_mpe

    sy, fr, sv, svec = object(), object(), np.zeros((2, 2, 3)), np.zeros((2, 2, 3), dtype=complex)

    def fake_sd(*a, **k):
        rec["sd_args"] = (a, k)
        return fr, sy

    def fake_svalsvec(SD):
        rec["svd_of"] = SD
        return sv, svec

    class FakeRes:
        def __init__(self, **kw):
            self.__dict__.update(kw)

    per = {"pyoma2.functions.fdd": {"FDD_mpe": fake_mpe, "SD_est": fake_sd, "SD_PreGER": fake_sd, "SD_svalsvec": fake_svalsvec}}
    W = World(per_module=per)
    tally = Tally(W, ["FDD.run", "FDD.mpe", "FDD_MS.run", "EFDD_mpe"])
    ex = Explorer()
    cls = getattr(afdd, cfg["cls"]) if cfg["cls"] != "EFDD" else None

    def body():
        if cfg["cls"] == "EFDD":
            # first stage of EFDD_mpe: the FDD estimate is taken with the stored decomposition of Sy and DF1
            import pyoma2.functions.fdd as ffdd
            tf = W.module(ffdd)
            Sy = object()
            try:
                tf.EFDD_mpe(Sy, fr, 0.01, [fresh("f0")], "per", method="EFDD", DF1=fresh("DF1"), DF2=1.0)
            except BaseException as exn:  # the stage after FDD_mpe needs real arrays; we only look at the hand-over
                rec["after"] = exn
            return Sy
        rp = _O()
        rp.nxseg, rp.method_SD, rp.pov = 64, "per", 0.25
        T = W.cls(cls)
        T.ResultCls = FakeRes
        alg = object.__new__(T)
        alg.run_params, alg.name, alg.fs, alg.dt = rp, "a", 10.0, 0.1
        alg.data = np.zeros((8, 2)) if cfg["cls"] == "FDD" else [{"ref": np.zeros((1, 8)), "mov": np.zeros((1, 8))}]
        alg.result = alg.run()
        sel, DF = [fresh("f0")], fresh("DF")
        alg.mpe(sel_freq=sel, DF=DF)
        return alg, sel, DF

    for e, (kind, r) in ex.run_all(body):
        why = []
        if cfg["cls"] == "EFDD":
            if rec.get("svd_of") is not r:
                why.append("EFDD_mpe does not decompose the spectral matrix it was given")
            if not (rec.get("Sval") is sv and rec.get("Svec") is svec and rec.get("freq") is fr):
                why.append("EFDD_mpe does not hand the decomposition / grid to FDD_mpe")
            if "DF" not in rec or not isinstance(rec["DF"], SV) or "DF1" not in str(rec["DF"].v):
                why.append("EFDD_mpe first stage does not use DF1 as the FDD band")
        elif kind == "exc":
            why.append(f"raised {type(r).__name__}: {r}")
        else:
            alg, sel, DF = r
            res = alg.result
            if not (res.S_val is sv and res.S_vec is svec and res.freq is fr and res.Sy is sy and rec.get("svd_of") is sy):
                why.append("run() does not store the decomposition of the estimated spectral matrix and its grid")
            if not (rec.get("Sval") is sv and rec.get("Svec") is svec and rec.get("freq") is fr and rec.get("sel_freq") is sel and rec.get("DF") is DF):
                why.append("mpe() does not hand the stored decomposition, grid, requests and DF to FDD_mpe")
            if not (res.Fn is marker_mpe[0] and res.Phi is marker_mpe[1]):
                why.append("mpe() does not store what FDD_mpe returned")
        tally.decide(e, z3.BoolVal(bool(why)), on_sat=lambda m, why=tuple(why): {"inputs": {}, "reproduced": True, "detail": "; ".join(why),
                                                                                 "key": f"{cfg['cls']}:wiring"}, label=f"{cfg['cls']} wiring")
    return tally.result(ex)


def replay(ob, cfg, inputs):
    if ob == "O1":
        v, d, _ = replay_mpe(cfg, inputs)
    elif ob == "O2":
        v, d, _ = replay_svd(cfg, inputs)
    else:
        return True, "wiring finding (deterministic)"
    return v, d
