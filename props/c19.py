"""C19 — geometry tables are validated, aligned to sensor order and mapped faithfully."""
import itertools

import numpy as np
import pandas as pd
import z3

from symx.arr import SymArray, fresh
from symx.core import SC, SV, Explorer, concretize, differs, lift
from symx.harness import Tally
from symx.twin import World

PROPERTY = "C19"
META = {
    "explanation": "The real gen.check_on_geo1 / check_on_geo2 / flatten_sns_names / dfphi_map_func and GeometryMixin.def_geo1 / def_geo2 run "
                   "on REAL pandas DataFrames whose numeric cells are symbolic (object dtype), with concrete string labels; every row "
                   "permutation of the coordinate/direction tables, every subset of optional sheets and every listed single-fault corruption "
                   "is one run.  z3 decides the value obligations: row k of the returned coordinates/directions is the input row labelled "
                   "sens_names[k], line/surface indices are input - 1, the constraint matrix is re-ordered to the sensor order with zero "
                   "columns for unconstrained sensors, and dfphi_map_func places phi[i] at cells naming sensor i, (constraints @ phi)[j] at "
                   "cells naming constraint j and 0 elsewhere.  Structural obligations (which table form, which exception) are concrete.",
    "bounds": {"quick": {"sensors": "3 (all 6 row permutations)", "optional sheets": "all subsets", "setups (names)": "1..2"},
               "thorough": {"sensors": "3..4 (all permutations)"}},
    "stubs": ["pandas is the real library (object-dtype cells); .astype(float) on symbolic cells is bridged by float tags that are mapped back "
              "to their symbols (valid because the code only moves these values)"],
    "assumptions": ["Excel parsing, the plotted artists (displacement = value x sign + coordinate) and pyvista are outside the claim",
                    "sensor-name forms are enumerated concretely (strings cannot be symbolic)"],
}

NAMES = ["s0", "s1", "s2", "s3"]


def jobs(tier):
    out = []
    ns = (3,) if tier == "quick" else (3, 4)
    for n in ns:
        for perm in itertools.permutations(range(n)):
            out.append({"ob": "O2a", "cfg": {"geo": 1, "n": n, "perm": list(perm), "opt": 15}})
        for opt in range(16):
            out.append({"ob": "O2c", "cfg": {"geo": 1, "n": n, "perm": list(range(n))[::-1], "opt": opt}})
    for fault in ("missing-names", "missing-coord", "unknown-sheet", "coord-2cols", "dir-shape", "dir-index", "name-absent", "bgnodes-2cols",
                  "bglines-3cols", "bgsurf-2cols"):
        out.append({"ob": "O2d", "cfg": {"geo": 1, "n": 3, "perm": [0, 1, 2], "opt": 15, "fault": fault}})
    for opt in range(32):
        out.append({"ob": "O2c", "cfg": {"geo": 2, "n": 3, "opt": opt}})
    for opt in (1, 3, 31):
        out.append({"ob": "O2c", "cfg": {"geo": 2, "n": 3, "opt": opt, "cs_full": True}})
    for fault in ("missing-mapping", "unknown-sheet", "pts-2cols", "map-shape", "sign-shape", "name-absent-map", "cstr-unknown-sensor",
                  "cstr-unused", "bglines-3cols"):
        out.append({"ob": "O2d", "cfg": {"geo": 2, "n": 3, "opt": 31, "fault": fault}})
    for form in ("list", "array", "row-table", "table-2setups", "lists-2setups", "lists-no-ref"):
        out.append({"ob": "O1", "cfg": {"form": form}})
    for form in ("dataframe", "ndarray"):
        out.append({"ob": "O2e", "cfg": {"form": form}})
    for cs in (False, True):
        out.append({"ob": "O3", "cfg": {"cstr": cs}})
    return out


def run(job, tier):
    ob = job["ob"]
    if ob == "O1":
        return run_names(job["cfg"])
    if ob == "O3":
        return run_map(job["cfg"])
    if ob == "O2e":
        return run_defgeo(job["cfg"])
    return run_geo(job["cfg"], ob)


def symdf(name, index, cols):
    a = np.asarray(fresh(name, (len(index), len(cols))), dtype=object).view(np.ndarray)
    return pd.DataFrame(a, index=list(index), columns=list(cols))


def build_geo1(cfg):
    n = cfg["n"]
    names = NAMES[:n]
    perm = cfg["perm"]
    idx = [names[p] for p in perm]
    fd = {"sensors names": pd.DataFrame([names]),
          "sensors coordinates": symdf("coord", idx, "xyz"),
          "sensors directions": symdf("dir", idx, "xyz")}
    opt = cfg["opt"]
    if opt & 1:
        fd["sensors lines"] = symdf("sl", range(2), "ab")
    if opt & 2:
        fd["BG nodes"] = symdf("bn", range(3), "xyz")
    if opt & 4:
        fd["BG lines"] = symdf("bl", range(2), "ab")
    if opt & 8:
        fd["BG surfaces"] = symdf("bs", range(1), "ijk")
    return names, fd


def build_geo2(cfg):
    n = cfg["n"]
    names = NAMES[:n]
    pts = ["p0", "p1", "p2"]
    mapping = pd.DataFrame([["s1", "c0", 0.0], ["s0", np.nan, "s2"], [0.0, "s1", "c0"]], index=pts, columns=list("xyz"), dtype=object)
    fd = {"sensors names": pd.DataFrame([names]), "points coordinates": symdf("pc", pts, "xyz"), "mapping": mapping}
    opt = cfg["opt"]
    if opt & 1:
        # partial table (a column is missing) or complete table in sheet order != sensor order
        fd["constraints"] = symdf("cs", ["c0"], ["s2", "s0", "s1"][:n] if cfg.get("cs_full") else ["s2", "s0"])
    else:
        fd["mapping"] = mapping.replace("c0", 0.0)
    if opt & 2:
        fd["sensors sign"] = symdf("sg", pts, "xyz")
    if opt & 4:
        fd["sensors lines"] = symdf("sl", range(2), "ab")
    if opt & 8:
        fd["sensors surfaces"] = symdf("ss", range(1), "ijk")
    if opt & 16:
        fd["BG lines"] = symdf("bl", range(2), "ab")
    return names, fd


def apply_fault(geo, fd, fault):
    if fault == "missing-names":
        del fd["sensors names"]
    elif fault == "missing-coord":
        del fd["sensors coordinates"]
    elif fault == "missing-mapping":
        del fd["mapping"]
    elif fault == "unknown-sheet":
        fd["notes"] = pd.DataFrame([[1]])
    elif fault == "coord-2cols":
        fd["sensors coordinates"] = fd["sensors coordinates"].iloc[:, :2]
        fd["sensors directions"] = fd["sensors directions"].iloc[:, :2]
    elif fault == "pts-2cols":
        fd["points coordinates"] = fd["points coordinates"].iloc[:, :2]
        fd["mapping"] = fd["mapping"].iloc[:, :2]
    elif fault == "dir-shape":
        fd["sensors directions"] = fd["sensors directions"].iloc[:-1]
    elif fault == "dir-index":
        d = fd["sensors directions"]
        fd["sensors directions"] = d.set_axis(list(d.index[::-1]), axis=0)
    elif fault == "name-absent":
        c = fd["sensors coordinates"]
        idx = list(c.index)
        idx[0] = "zz"
        fd["sensors coordinates"] = c.set_axis(idx, axis=0)
        fd["sensors directions"] = fd["sensors directions"].set_axis(idx, axis=0)
    elif fault == "bgnodes-2cols":
        fd["BG nodes"] = fd["BG nodes"].iloc[:, :2]
    elif fault == "bglines-3cols":
        fd["BG lines"] = symdf("bl3", range(2), "abc")
    elif fault == "bgsurf-2cols":
        fd["BG surfaces"] = fd["BG surfaces"].iloc[:, :2]
    elif fault == "map-shape":
        fd["mapping"] = fd["mapping"].iloc[:-1]
    elif fault == "sign-shape":
        fd["sensors sign"] = fd["sensors sign"].iloc[:-1]
    elif fault == "name-absent-map":
        fd["mapping"] = fd["mapping"].replace("s2", 0.0)
    elif fault == "cstr-unknown-sensor":
        fd["constraints"] = symdf("cs", ["c0"], ["s2", "zz"])
    elif fault == "cstr-unused":
        fd["constraints"] = symdf("cs", ["c0", "c9"], ["s2", "s0"])
    else:
        raise KeyError(fault)


def run_geo(cfg, ob):
    from pyoma2.functions import gen
    W = World()
    tg = W.module(gen)
    tally = Tally(W, ["check_on_geo1", "check_on_geo2", "flatten_sns_names"])
    ex = Explorer()
    st = {}
    geo = cfg["geo"]

    def body():
        names, fd = (build_geo1 if geo == 1 else build_geo2)(cfg)
        if cfg.get("fault"):
            apply_fault(geo, fd, cfg["fault"])
        st.update(names=names, fd={k: v.copy() for k, v in fd.items()})
        # frame condition: the caller's tables (def_geo1/2 put the user's own DataFrames into the dict) are not written to
        st["frames"] = [(k, v, v.to_numpy(dtype=object, copy=True)) for k, v in fd.items()]
        return (tg.check_on_geo1 if geo == 1 else tg.check_on_geo2)(fd)

    for e, (kind, res) in ex.run_all(body):
        names, fd = st["names"], st["fd"]
        why, bad = [], []
        if cfg.get("fault"):
            if not (kind == "exc" and isinstance(res, ValueError)):
                why.append(f"fault '{cfg['fault']}': " + ("no exception" if kind == "ok" else f"{type(res).__name__} instead of ValueError"))
        elif kind == "exc":
            why.append(f"valid tables (optional sheets mask {cfg['opt']}) raised {type(res).__name__}: {res}")
        if not cfg.get("fault") and kind == "ok":
            for k, frame, cells in st["frames"]:
                now = frame.to_numpy(dtype=object)
                if now.shape != cells.shape or any(now[ix] is not cells[ix] and not (isinstance(now[ix], float) and isinstance(cells[ix], float)
                                                                                       and (now[ix] == cells[ix] or (now[ix] != now[ix] and cells[ix] != cells[ix])))
                                                   and not (isinstance(now[ix], str) and now[ix] == cells[ix]) for ix in np.ndindex(cells.shape)):
                    why.append(f"the caller's table '{k}' was modified in place")
        if cfg.get("fault") or kind == "exc":
            pass
        elif geo == 1:
            sn, coord, sdir, slines, bgn, bgl, bgs = res
            if list(sn) != names:
                why.append(f"sensor names {sn}")
            else:
                for k, nm in enumerate(names):
                    for c in range(3):
                        bad.append(differs(coord.values[k, c], fd["sensors coordinates"].loc[nm].values[c]))
                        bad.append(differs(sdir[k, c], fd["sensors directions"].loc[nm].values[c]))
                if list(coord.index) != names:
                    why.append(f"coordinate table index {list(coord.index)} is not the sensor order")
            for key, got, shift in (("sensors lines", slines, 1), ("BG nodes", bgn, 0), ("BG lines", bgl, 1), ("BG surfaces", bgs, 1)):
                if key in fd:
                    src = fd[key].values
                    if got is None or np.shape(got) != src.shape:
                        why.append(f"'{key}' returned as {None if got is None else np.shape(got)}")
                    else:
                        bad += [differs(got[ix], lift(src[ix]) - shift) for ix in np.ndindex(src.shape)]
                elif got is not None:
                    why.append(f"omitted sheet '{key}' returned as {got!r}")
        else:
            sn, pts, smap, cstr, sign, slines, ssurf, bgn, bgl, bgs = res
            if list(sn) != names:
                why.append(f"sensor names {sn}")
            src = fd["points coordinates"]
            bad += [differs(pts.values[ix], src.values[ix]) for ix in np.ndindex(src.shape)]
            m0 = fd["mapping"]
            for ix in np.ndindex(m0.shape):
                a, b = smap.values[ix], m0.values[ix]
                if isinstance(b, float) and np.isnan(b):
                    if a not in (0, 0.0):
                        why.append(f"empty mapping cell {ix} became {a!r}")
                elif a != b:
                    why.append(f"mapping cell {ix}: {a!r} != {b!r}")
            if "constraints" in fd:
                c0 = fd["constraints"]
                if cstr is None or list(cstr.columns) != names or list(cstr.index) != list(c0.index):
                    why.append(f"constraint table not re-ordered to the sensor order: {None if cstr is None else list(cstr.columns)}")
                else:
                    for r in c0.index:
                        for nm in names:
                            want = c0.loc[r, nm] if nm in c0.columns else 0
                            bad.append(differs(cstr.loc[r, nm], want))
            elif cstr is not None:
                why.append("omitted 'constraints' returned as a table")
            if "sensors sign" in fd:
                bad += [differs(sign.values[ix], fd["sensors sign"].values[ix]) for ix in np.ndindex(src.shape)]
            elif sign is None or np.shape(sign.values) != src.shape or not np.all(sign.values == 1):
                why.append("default sign table is not all ones")
            for key, got in (("sensors lines", slines), ("sensors surfaces", ssurf), ("BG lines", bgl)):
                if key in fd:
                    s2 = fd[key].values
                    if got is None or np.shape(got) != s2.shape:
                        why.append(f"'{key}' returned as {None if got is None else np.shape(got)}")
                    else:
                        bad += [differs(got[ix], lift(s2[ix]) - 1) for ix in np.ndindex(s2.shape)]
                elif got is not None:
                    why.append(f"omitted sheet '{key}' returned as {got!r}")
        neg = z3.BoolVal(True) if why else (z3.Or(*bad) if bad else z3.BoolVal(False))
        tally.decide(e, neg, on_sat=lambda m, why=tuple(why): cex(cfg, ob, why), label=f"geo{geo} {cfg.get('fault') or 'opt=' + str(cfg['opt'])}")
    return tally.result(ex)


def cex(cfg, ob, why):
    viol, detail, key = replay_geo(cfg)
    return {"inputs": {}, "reproduced": viol, "detail": ("; ".join(why) + " | " if why else "") + detail, "key": key}


def _concrete(fd, seed=0):
    rng = np.random.RandomState(seed)
    out = {}
    for k, v in fd.items():
        if k in ("sensors names", "mapping"):
            out[k] = v.copy()
        else:
            a = np.empty(v.shape, dtype=float)
            for ix in np.ndindex(v.shape):
                a[ix] = float(rng.randint(1, 9)) if k in ("sensors lines", "BG lines", "BG surfaces", "sensors surfaces") else rng.randn()
            out[k] = pd.DataFrame(a, index=v.index, columns=v.columns)
    return out


def replay_geo(cfg):
    from pyoma2.functions import gen
    ex = Explorer()
    got = {}

    def build():
        names, fd = (build_geo1 if cfg["geo"] == 1 else build_geo2)(cfg)
        if cfg.get("fault"):
            apply_fault(cfg["geo"], fd, cfg["fault"])
        got["names"], got["fd"] = names, fd
        return None
    for _ in ex.run_all(build):
        pass
    names, fd = got["names"], _concrete(got["fd"])
    fd0 = {k: v.copy() for k, v in fd.items()}
    fd_in = dict(fd)      # the table objects handed in (the function may re-bind the dict's entries)
    fn = gen.check_on_geo1 if cfg["geo"] == 1 else gen.check_on_geo2
    site = fn.__name__
    try:
        res = fn(fd)
    except ValueError as e:
        if cfg.get("fault"):
            return False, "fault rejected with ValueError", None
        return True, f"{site}: valid tables raised ValueError: {e}", f"{site}:rejects-valid"
    except Exception as e:  # noqa: BLE001
        kind = "fault" if cfg.get("fault") else "valid"
        missing = [k for k in ("constraints",) if k not in fd0 and cfg["geo"] == 2]
        return True, f"{site}: {kind} tables (sheets {sorted(fd0)}) raised {type(e).__name__}: {e}", \
            f"{site}:{'optional-sheet-required:' + missing[0] if missing and isinstance(e, KeyError) else 'raises:' + type(e).__name__}"
    if cfg.get("fault"):
        return True, f"{site}: corruption '{cfg['fault']}' accepted", f"{site}:accepts:{cfg['fault']}"
    for k, v0 in fd0.items():
        try:
            same = fd_in[k].shape == v0.shape and all((a == b) or (a != a and b != b) for a, b in zip(fd_in[k].to_numpy(dtype=object).ravel(), v0.to_numpy(dtype=object).ravel()))
        except Exception:  # noqa: BLE001
            same = False
        if not same:
            return True, (f"{site}: the caller's table '{k}' was modified in place (defining the geometry a second time from the same tables "
                          f"shifts its indices again)"), f"{site}:modifies-input:{k}"
    if cfg["geo"] == 1:
        sn, coord, sdir = res[0], res[1], res[2]
        for k, nm in enumerate(names):
            if not np.allclose(coord.values[k].astype(float), fd0["sensors coordinates"].loc[nm].values.astype(float)) or \
                    not np.allclose(np.asarray(sdir[k], dtype=float), fd0["sensors directions"].loc[nm].values.astype(float)):
                return True, f"{site}: row {k} is not the row of sensor {nm}", f"{site}:alignment"
        for key, got_ in (("sensors lines", res[3]), ("BG lines", res[5]), ("BG surfaces", res[6])):
            if key in fd0 and not np.allclose(np.asarray(got_, dtype=float), fd0[key].values - 1):
                return True, f"{site}: '{key}' not shifted to zero-based", f"{site}:index-shift"
    else:
        cstr = res[3]
        if "constraints" in fd0:
            c0 = fd0["constraints"]
            if cstr is None or list(cstr.columns) != list(names):
                return True, (f"{site}: constraint table columns {None if cstr is None else list(cstr.columns)} are not in sensor order "
                              f"{list(names)} (dfphi_map_func multiplies positionally)"), f"{site}:constraints-order"
            for r in c0.index:
                for nm in names:
                    want = float(c0.loc[r, nm]) if nm in c0.columns else 0.0
                    if not np.isclose(float(cstr.loc[r, nm]), want):
                        return True, f"{site}: constraint coefficient ({r}, {nm}) changed", f"{site}:constraints-values"
        elif cstr is not None:
            return True, f"{site}: omitted 'constraints' returned as a table", f"{site}:constraints-invented"
    return False, "as specified", None


# ------------------------------------------------------------------------------------------ O1 name forms
def run_names(cfg):
    from pyoma2.functions import gen
    W = World()
    tg = W.module(gen)
    tally = Tally(W, ["flatten_sns_names"])
    ex = Explorer()
    form = cfg["form"]

    def body():
        if form == "list":
            return tg.flatten_sns_names(["a", "b", "c"]), ["a", "b", "c"]
        if form == "array":
            return tg.flatten_sns_names(np.array(["a", "b", "c"])), ["a", "b", "c"]
        if form == "row-table":
            return tg.flatten_sns_names(pd.DataFrame([["a", "b", "c"]])), ["a", "b", "c"]
        if form == "table-2setups":
            df = pd.DataFrame([["r", "x1", "x2"], ["y1", "r", np.nan]])
            return tg.flatten_sns_names(df, ref_ind=[[0], [1]]), ["REF1", "x1", "x2", "y1"]
        if form == "lists-2setups":
            return tg.flatten_sns_names([["x1", "r1", "r2"], ["r2", "y1", "r1", "y2"]], ref_ind=[[1, 2], [2, 0]]), ["REF1", "REF2", "x1", "y1", "y2"]
        return tg.flatten_sns_names([["x1", "r"], ["r", "y1"]]), None

    for e, (kind, res) in ex.run_all(body):
        if form == "lists-no-ref":
            bad = not (kind == "exc")
            why = "multi-setup names without reference indices accepted"
        else:
            bad = kind != "ok" or list(res[0]) != res[1]
            why = f"{form}: {res!r}"
        tally.decide(e, z3.BoolVal(bool(bad)), on_sat=lambda m, why=why: {"inputs": {}, "reproduced": True, "detail": why,
                                                                          "key": f"flatten_sns_names:{form}"}, label=form)
    return tally.result(ex)


# ------------------------------------------------------------------------------------------ O2e documented argument forms
class _O:
    pass


def run_defgeo(cfg):
    from pyoma2.support.geometry import mixin
    W = World()
    tally = Tally(W, ["GeometryMixin.def_geo1", "check_on_geo1"])
    ex = Explorer()
    form = cfg["form"]

    def body():
        T = W.cls(mixin.GeometryMixin)
        obj = object.__new__(T)
        names = ["s0", "s1", "s2"]
        rng = np.random.RandomState(0)
        coord = pd.DataFrame(rng.randn(3, 3), index=["s2", "s0", "s1"], columns=list("xyz"))
        sdir = pd.DataFrame(np.eye(3), index=["s2", "s0", "s1"], columns=list("xyz"))
        lines = np.array([[1, 2], [2, 3]])
        if form == "dataframe":
            obj.def_geo1(names, coord, sdir, sens_lines=pd.DataFrame(lines))
        else:
            obj.def_geo1(names, coord, sdir.values, sens_lines=lines)      # the documented ndarray forms
        return obj.geo1, coord, sdir

    for e, (kind, res) in ex.run_all(body):
        why = None
        if kind == "exc":
            why = f"def_geo1 with {form} arguments raised {type(res).__name__}: {res}"
        else:
            g, coord, sdir = res
            if list(g.sens_names) != ["s0", "s1", "s2"] or not np.allclose(g.sens_coord.values.astype(float), coord.loc[["s0", "s1", "s2"]].values):
                why = "coordinates not aligned to the sensor order"
            elif not np.array_equal(np.asarray(g.sens_lines), np.array([[0, 1], [1, 2]])):
                why = "sensor lines not zero-based"
        tally.decide(e, z3.BoolVal(bool(why)), on_sat=lambda m, why=why: {"inputs": {}, "reproduced": True, "detail": why,
                                                                          "key": f"def_geo1:{form}-arguments"}, label=form)
    return tally.result(ex)


# ------------------------------------------------------------------------------------------ O3 mapping
TAGS = {}


def _tag_float(self):
    k = 1e6 + len(TAGS) * 1.25 + 0.0625
    TAGS[k] = self
    return k


def run_map(cfg):
    from pyoma2.functions import gen
    W = World()
    tg = W.module(gen)
    tally = Tally(W, ["dfphi_map_func"])
    ex = Explorer()
    st = {}

    def body():
        names = ["s0", "s1", "s2"]
        phi = fresh("phi", (3,))
        smap = pd.DataFrame([["s1", "c0" if cfg["cstr"] else 0.0, 0.0], ["s0", 0.0, "s2"], [0.0, "s1", "c0" if cfg["cstr"] else "s0"]],
                            index=["p0", "p1", "p2"], columns=list("xyz"), dtype=object)
        cs = None
        if cfg["cstr"]:
            cs = pd.DataFrame(np.asarray(fresh("cs", (1, 3)), dtype=object).view(np.ndarray), index=["c0"], columns=names)
        st.update(phi=phi, smap=smap, cs=cs)
        TAGS.clear()
        old = SV.__float__
        SV.__float__ = _tag_float          # bridge .astype(float): the code only moves these values
        try:
            return tg.dfphi_map_func(phi, names, smap, cstrn=cs)
        finally:
            SV.__float__ = old

    for e, (kind, res) in ex.run_all(body):
        phi, smap, cs = st["phi"], st["smap"], st["cs"]
        why, bad = [], []
        if kind == "exc":
            why.append(f"raised {type(res).__name__}: {res}")
        else:
            idx = {"s0": 0, "s1": 1, "s2": 2}
            for ix in np.ndindex(smap.shape):
                cell = smap.values[ix]
                got = res.values[ix]
                got = TAGS.get(float(got), got)
                if cell in idx:
                    want = phi[idx[cell]]
                elif cell == "c0":
                    want = sum((lift(cs.values[0, k]) * phi[k] for k in range(3)), lift(0))
                else:
                    want = 0.0
                if isinstance(got, float) and not isinstance(want, (SV, SC)):
                    if got != want:
                        why.append(f"cell {ix} ({cell!r}) mapped to {got}")
                else:
                    bad.append(differs(got, want))
        neg = z3.BoolVal(True) if why else z3.Or(*bad)
        tally.decide(e, neg, on_sat=lambda m, why=tuple(why): {"inputs": {}, "reproduced": replay_map(cfg)[0],
                                                               "detail": "; ".join(why) + " | " + replay_map(cfg)[1], "key": "dfphi_map_func:values"},
                     label=f"mapping cstr={cfg['cstr']}")
    return tally.result(ex)


def replay_map(cfg):
    from pyoma2.functions import gen
    names = ["s0", "s1", "s2"]
    phi = np.array([0.3, -1.2, 2.5])
    smap = pd.DataFrame([["s1", "c0" if cfg["cstr"] else 0.0, 0.0], ["s0", 0.0, "s2"], [0.0, "s1", "c0" if cfg["cstr"] else "s0"]],
                        index=["p0", "p1", "p2"], columns=list("xyz"), dtype=object)
    cs = pd.DataFrame([[0.5, 0.0, -2.0]], index=["c0"], columns=names) if cfg["cstr"] else None
    try:
        out = gen.dfphi_map_func(phi, names, smap, cstrn=cs)
    except Exception as e:  # noqa: BLE001
        return True, f"dfphi_map_func raised {type(e).__name__}: {e}"
    val = {"s0": 0.3, "s1": -1.2, "s2": 2.5, "c0": 0.5 * 0.3 - 2.0 * 2.5}
    for ix in np.ndindex(smap.shape):
        want = val.get(smap.values[ix], 0.0)
        if abs(float(out.values[ix]) - want) > 1e-12:
            return True, f"cell {ix} ({smap.values[ix]!r}) = {out.values[ix]} expected {want}"
    return False, "mapping as specified"


def replay(ob, cfg, inputs):
    if ob == "O3":
        return replay_map(cfg)
    if ob in ("O1", "O2e"):
        return True, "deterministic structural finding (see evidence)"
    v, d, _ = replay_geo(cfg)
    return v, d
