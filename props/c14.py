"""C14 — preprocessing composes, metadata stays truthful, rollback restores the start."""
import copy
import itertools
import math

import numpy as np
import z3

from symx.arr import fresh
from symx.core import SV, Explorer, concretize, differs, lift
from symx.harness import Tally, to_json
from symx.twin import World

PROPERTY = "C14"
META = {
    "explanation": "The real SingleSetup / MultiSetup_PreGER methods (__init__, _initialize_data, decimate_data, detrend_data, "
                   "filter_data, rollback, add_algorithms), BaseSetup's static helpers, gen.filter_data and gen.pre_multisetup run "
                   "on arrays whose cells are (column-term, sample-index) pairs; scipy's decimate / detrend / butter+sosfiltfilt are "
                   "uninterpreted functions on column terms (with the documented length contract), so 'the data equals the same "
                   "scipy operations applied in that sequence' is term equality decided by z3 (sampling frequency and cut-off are "
                   "symbolic reals).  Every sequence of operation kinds up to the bound is one symbolic run; per run z3 decides "
                   "data, metadata (fs, dt, sample counts, durations), rollback and the write frame.",
    "bounds": {"quick": {"history": "all sequences <= 3 of {decimate, detrend, filter, rollback}, then add_algorithms", "q": "2..3",
                         "datasets": "1 (single) / 2 (PreGER), 12 and 13 samples, 2..3 channels, reference layouts [0], [1,0]"},
               "thorough": {"history": "all sequences <= 4", "q": "2..4"}},
    "stubs": ["scipy.signal.decimate(x, q, n, ftype, axis, zero_phase) -> column-wise UF dec(col, q, kw) with ceil(N/q) samples",
              "scipy.signal.detrend(x, axis, type, bp, overwrite_data) -> UF det(col, kw); overwrite_data=True is logged as an in-place "
              "write on the argument's buffer", "scipy.signal.butter -> token; sosfiltfilt -> UF filt(col, fs, Wn, order, btype)"],
    "assumptions": ["what the scipy routines compute numerically is scipy's", "fs > 0, Wn > 0 symbolic"],
}

Col = z3.DeclareSort("Col")
DEC = z3.Function("dec", Col, z3.IntSort(), z3.IntSort(), Col)
DET = z3.Function("det", Col, z3.IntSort(), Col)
FILT = z3.Function("filt", Col, z3.RealSort(), z3.RealSort(), z3.IntSort(), z3.IntSort(), Col)
_TAGS = {}


def tag(x):
    """canonical integer for a hashable keyword description"""
    return _TAGS.setdefault(repr(x), len(_TAGS))


class Cell:
    """one sample: (column term, sample index)"""
    __slots__ = ("col", "t")

    def __init__(self, col, t):
        self.col, self.t = col, t

    def __deepcopy__(self, memo):
        return Cell(self.col, self.t)

    def __repr__(self):
        return f"<{self.col}@{self.t}>"


def make_data(name, N, nch):
    a = np.empty((N, nch), dtype=object)
    for ch in range(nch):
        c = z3.Const(f"{name}_c{ch}", Col)
        for t in range(N):
            a[t, ch] = Cell(c, t)
    return a


def root(a):
    while isinstance(a, np.ndarray) and a.base is not None:
        a = a.base
    return a


class Scipy:
    """stubs; `writes` logs in-place modification of argument buffers"""

    def __init__(self):
        self.writes = []
        self.calls = []

    def _cols(self, x):
        x = np.asarray(x, dtype=object)
        assert x.ndim == 2, "stub expects (samples, channels)"
        cols = []
        for ch in range(x.shape[1]):
            c0 = x[0, ch]
            # a well-formed column: same column term, consecutive sample indices
            ok = all(isinstance(x[t, ch], Cell) and z3.eq(x[t, ch].col, c0.col) and x[t, ch].t == t for t in range(x.shape[0]))
            cols.append(c0.col if ok else z3.Const(f"scrambled_{len(self.calls)}_{ch}", Col))
        return x, cols

    def decimate(self, x, q, n=None, ftype="iir", axis=-1, zero_phase=True):
        assert axis == 0, f"decimate along axis {axis}"
        x, cols = self._cols(x)
        kw = tag(("dec", n, ftype, bool(zero_phase)))
        self.calls.append(("decimate", int(q), n, ftype, zero_phase))
        N2 = math.ceil(x.shape[0] / int(q))
        out = np.empty((N2, x.shape[1]), dtype=object)
        for ch, c in enumerate(cols):
            nc = DEC(c, z3.IntVal(int(q)), z3.IntVal(kw))
            for t in range(N2):
                out[t, ch] = Cell(nc, t)
        return out

    def detrend(self, x, axis=-1, type="linear", bp=0, overwrite_data=False):  # noqa: A002
        assert axis == 0, f"detrend along axis {axis}"
        x0 = x
        x, cols = self._cols(x)
        kw = tag(("det", type, bp if not isinstance(bp, (list, tuple)) else tuple(bp)))
        self.calls.append(("detrend", type, bp, overwrite_data))
        if overwrite_data:
            self.writes.append(id(root(x0)))
        out = np.empty(x.shape, dtype=object)
        for ch, c in enumerate(cols):
            nc = DET(c, z3.IntVal(kw))
            for t in range(x.shape[0]):
                out[t, ch] = Cell(nc, t)
        return out

    def butter(self, N, Wn, btype="low", analog=False, output="ba", fs=None):
        assert output == "sos"
        return ("sos", N, Wn, btype, fs)

    def sosfiltfilt(self, sos, x, axis=-1, **kw):
        assert axis == 0 and sos[0] == "sos"
        x, cols = self._cols(x)
        _, N, Wn, btype, fs = sos
        self.calls.append(("filter", N, Wn, btype, fs))
        out = np.empty(x.shape, dtype=object)
        for ch, c in enumerate(cols):
            # edge handling is part of the routine's contract: scipy's defaults (padtype='odd', padlen=None) are the specification;
            # any other value gives a different filter (tagged into the band-type argument of the uninterpreted function)
            pad = (kw.get("padtype", "odd"), kw.get("padlen", None))
            extra = sorted(k for k in kw if k not in ("padtype", "padlen"))
            bt = ("btype", btype) if pad == ("odd", None) and not extra else ("btype", btype, "pad", str(pad[0]), str(pad[1]), tuple(extra))
            nc = FILT(c, lift(fs).z, lift(Wn).z, z3.IntVal(int(N)), z3.IntVal(tag(bt)))
            for t in range(x.shape[0]):
                out[t, ch] = Cell(nc, t)
        return out


OPS = ["dec", "det", "filt", "roll"]


def jobs(tier):
    out = []
    L = 3 if tier == "quick" else 4
    seqs = [s for n in range(1, L + 1) for s in itertools.product(OPS, repeat=n)]
    for kind in ("single", "preger"):
        for s in seqs:
            if tier == "quick" and len(s) == 3 and s.count("roll") >= 2:
                continue
            out.append({"ob": "O123", "cfg": {"kind": kind, "seq": list(s), "q": 2 if len(s) % 2 else 3, "N": 12 if len(s) != 2 else 13}})
    # documented keywords of the wrapped routines (O4) and the write frame with in-place keywords (O5)
    kws = [("dec", {"ftype": "fir"}), ("dec", {"n": 4}), ("dec", {"zero_phase": False}), ("dec", {"ftype": "fir", "n": 5, "zero_phase": False}),
           ("det", {"type": "constant"}), ("det", {"bp": [3, 6]}), ("det", {"overwrite_data": True}), ("det", {"type": "linear", "overwrite_data": True}),
           ("filt", {"btype": "highpass"}), ("filt", {"order": 4, "btype": "bandpass"})]
    for kind in ("single", "preger"):
        for op, kw in kws:
            out.append({"ob": "O45", "cfg": {"kind": kind, "seq": [op], "kw": kw, "q": 2, "N": 12}})
            out.append({"ob": "O45", "cfg": {"kind": kind, "seq": ["roll", op], "kw": kw, "q": 2, "N": 12}})
    return out


class _Obj:
    pass


def build(cfg, W, sp):
    """returns (setup carrier built through the real __init__, user arrays, fs0)"""
    from pyoma2.setup import multi, single
    fs0 = fresh("fs0", nn=True)
    Explorer.cur.assume(fs0.v > 0)
    N = cfg["N"]
    if cfg["kind"] == "single":
        user = [make_data("D0", N, 3)]
        T = W.cls(single.SingleSetup)
        su = object.__new__(T)
        T.__init__(su, user[0], fs0)
        refs = None
    else:
        user = [make_data("D0", N, 3), make_data("D1", N + 2, 2)]
        refs = [[0], [1]] if cfg.get("layout", 0) == 0 else [[1, 0], [0, 1]]
        T = W.cls(multi.MultiSetup_PreGER)
        su = object.__new__(T)
        T.__init__(su, fs0, [list(r) for r in refs], list(user))
    return su, user, fs0, refs


def world(sp):
    per = {"pyoma2.setup.base": {"decimate": sp.decimate, "detrend": sp.detrend},
           "pyoma2.functions.gen": {"signal": sp}}
    return World(per_module=per)


def model_cols(cfg, user, fs0, seq, params):
    """specification: column terms / lengths / fs after the history"""
    cols = [[user[i][0, ch].col for ch in range(user[i].shape[1])] for i in range(len(user))]
    lens = [u.shape[0] for u in user]
    fs = fs0
    for k, op in enumerate(seq):
        p = params[k]
        if op == "dec":
            kw = tag(("dec", p.get("n"), p.get("ftype", "iir"), bool(p.get("zero_phase", True))))
            cols = [[DEC(c, z3.IntVal(p["q"]), z3.IntVal(kw)) for c in cs] for cs in cols]
            lens = [math.ceil(n / p["q"]) for n in lens]
            fs = fs / p["q"]
        elif op == "det":
            bp = p.get("bp", 0)
            kw = tag(("det", p.get("type", "linear"), bp if not isinstance(bp, (list, tuple)) else tuple(bp)))
            cols = [[DET(c, z3.IntVal(kw)) for c in cs] for cs in cols]
        elif op == "filt":
            cols = [[FILT(c, fs.z, p["Wn"].z, z3.IntVal(p.get("order", 8)), z3.IntVal(tag(("btype", p.get("btype", "lowpass"))))) for c in cs]
                    for cs in cols]
        elif op == "roll":
            cols = [[user[i][0, ch].col for ch in range(user[i].shape[1])] for i in range(len(user))]
            lens = [u.shape[0] for u in user]
            fs = fs0
    return cols, lens, fs


def apply_op(su, op, p):
    if op == "dec":
        kw = {k: v for k, v in p.items() if k != "q"}
        su.decimate_data(p["q"], **kw)
    elif op == "det":
        su.detrend_data(**p)
    elif op == "filt":
        su.filter_data(**p)
    elif op == "roll":
        su.rollback()


def cols_of(arr, transpose=False):
    """(list of column terms or None when a column is not well formed, length)"""
    a = np.asarray(arr, dtype=object)
    if transpose:
        a = a.T
    out = []
    for ch in range(a.shape[1]):
        c0 = a[0, ch]
        ok = all(isinstance(a[t, ch], Cell) and z3.eq(a[t, ch].col, c0.col) and a[t, ch].t == t for t in range(a.shape[0]))
        out.append(c0.col if ok else None)
    return out, a.shape[0]


def run(job, tier):
    cfg = job["cfg"]
    sp = Scipy()
    W = world(sp)
    tally = Tally(W, ["SingleSetup", "MultiSetup_PreGER", "BaseSetup", "filter_data", "pre_multisetup", "BaseAlgorithm._set_data"])
    ex = Explorer(timeout_ms=20000)
    st = {}
    seq = cfg["seq"]

    def body():
        from pyoma2.algorithms import fdd as afdd
        sp.writes.clear()
        sp.calls.clear()
        su, user, fs0, refs = build(cfg, W, sp)
        user_copy = [copy.deepcopy(u) for u in user]
        params = []
        for k, op in enumerate(seq):
            if op == "dec":
                p = {"q": cfg["q"]}
            elif op == "filt":
                Wn = fresh(f"Wn{k}", nn=True)
                Explorer.cur.assume(Wn.v > 0)
                p = {"Wn": Wn}
            else:
                p = {}
            if cfg.get("kw") and op == seq[-1] and k == len(seq) - 1:
                p.update(cfg["kw"])
            params.append(p)
        st.update(su=su, user=user, fs0=fs0, refs=refs, params=params, user_copy=user_copy, log=[])
        for k, op in enumerate(seq):
            try:
                apply_op(su, op, params[k])
            except Exception as e:  # noqa: BLE001
                st["log"].append((k, op, e))
                raise
        alg = W.carrier(afdd.FDD, name="probe", run_params=None)
        su.add_algorithms(alg)
        return alg

    for e, (kind, res) in ex.run_all(body):
        su, user, fs0, refs, params = st["su"], st["user"], st["fs0"], st["refs"], st["params"]
        bad, why = [], []
        if kind == "exc":
            why.append(f"{seq}: raised {type(res).__name__}: {res}")
        else:
            alg = res
            cols, lens, fs = model_cols(cfg, user, fs0, seq, params)
            # ---- O1 data handed to the algorithm
            if cfg["kind"] == "single":
                got, n = cols_of(alg.data)
                if n != lens[0] or len(got) != len(cols[0]) or any(g is None for g in got):
                    why.append(f"data shape/structure: {np.shape(alg.data)} vs {lens[0]} samples")
                else:
                    bad += [g != c for g, c in zip(got, cols[0])]
            else:
                for i in range(len(user)):
                    nch = user[i].shape[1]
                    mov = [ch for ch in range(nch) if ch not in refs[i]]
                    for part, chans in (("ref", refs[i]), ("mov", mov)):
                        got, n = cols_of(alg.data[i][part], transpose=True)
                        if n != lens[i] or len(got) != len(chans) or any(g is None for g in got):
                            why.append(f"dataset {i} '{part}': shape {np.shape(alg.data[i][part])} vs ({len(chans)}, {lens[i]})")
                        else:
                            bad += [g != cols[i][ch] for g, ch in zip(got, chans)]
                    got, n = cols_of(su.datasets[i])
                    if n != lens[i] or any(g is None for g in got) or len(got) != nch:
                        why.append(f"datasets[{i}] shape {np.shape(su.datasets[i])} vs {lens[i]} samples")
                    else:
                        bad += [g != c for g, c in zip(got, cols[i])]
            # ---- O2 metadata
            bad.append(differs(su.fs, fs))
            bad.append(differs(alg.fs, fs))
            bad.append(differs(lift(su.dt) * lift(su.fs), 1))
            bad.append(differs(lift(alg.dt) * lift(alg.fs), 1))
            if cfg["kind"] == "single":
                if su.Ndat != lens[0]:
                    why.append(f"Ndat={su.Ndat} but the data has {lens[0]} samples")
                bad.append(differs(su.T, lift(lens[0]) / fs))
            else:
                if list(su.Ndats) != lens:
                    why.append(f"Ndats={su.Ndats} but the datasets have {lens} samples")
                for i in range(len(user)):
                    bad.append(differs(su.Ts[i], lift(lens[i]) / fs))
            # ---- O5 frame: user arrays and stored initial copies unchanged and never written
            for u, uc in zip(user, st["user_copy"]):
                same = all(z3.eq(u[ix].col, uc[ix].col) and u[ix].t == uc[ix].t for ix in np.ndindex(u.shape))
                if not same:
                    why.append("a user array was modified")
                if id(root(u)) in sp.writes:
                    why.append("an in-place keyword wrote into the array the user passed in")
            init = [su._initial_data] if cfg["kind"] == "single" else list(su._initial_datasets)
            for a, u in zip(init, user):
                got, n = cols_of(a)
                if n != u.shape[0] or any(g is None or not z3.eq(g, u[0, ch].col) for ch, g in enumerate(got)):
                    why.append("the stored initial copy was modified")
                if id(root(a)) in sp.writes:
                    why.append("an in-place keyword wrote into the stored initial copy")
                if any(root(a) is root(u2) for u2 in user):
                    why.append("the stored initial copy aliases the user's array")
        neg = z3.BoolVal(True) if why else z3.Or(*bad)
        tally.decide(e, neg, on_sat=lambda m, why=tuple(why): cex(cfg, why, m, st), label=f"{cfg['kind']} {seq} {cfg.get('kw', '')}")
    return tally.result(ex)


def cex(cfg, why, m, st):
    fs0 = float(concretize(m, st["fs0"])) if st.get("fs0") is not None else 100.0
    inputs = {"fs0": fs0 if fs0 > 0 else 100.0}
    viol, detail, key = replay_hist(cfg, inputs)
    return {"inputs": inputs, "reproduced": viol, "detail": ("; ".join(why) + " | " if why else "") + detail, "key": key}


# ------------------------------------------------------------------------------------------ concrete replay on the real classes
def replay_hist(cfg, inputs):
    from scipy import signal
    from pyoma2.algorithms import fdd as afdd
    from pyoma2.functions import gen
    from pyoma2.setup import multi, single
    rng = np.random.RandomState(7)
    fs0 = float(inputs.get("fs0", 100.0)) or 100.0
    seq = cfg["seq"]
    # long enough for scipy's zero-phase decimation to accept the record after every decimation of the history
    N = max(cfg["N"] * 40, 400) * (cfg["q"] ** max(0, seq.count("dec") - 2)) + (cfg["N"] % 2)
    kind = cfg["kind"]
    if kind == "single":
        user = [rng.randn(N, 3) + 5.0 + 0.01 * np.arange(N)[:, None]]
        su = single.SingleSetup(user[0], fs0)
        refs = None
    else:
        user = [rng.randn(N, 3) + 5.0, rng.randn(N + 7, 2) - 3.0]
        refs = [[0], [1]]
        su = multi.MultiSetup_PreGER(fs0, [list(r) for r in refs], list(user))
    backup = [u.copy() for u in user]
    model = [u.copy() for u in user]
    fs = fs0
    site = f"{'SingleSetup' if kind == 'single' else 'MultiSetup_PreGER'}"
    for k, op in enumerate(seq):
        p = dict(cfg.get("kw") or {}) if (cfg.get("kw") and k == len(seq) - 1) else {}
        try:
            if op == "dec":
                su.decimate_data(cfg["q"], **p)
                model = [signal.decimate(x, cfg["q"], axis=0, **p) for x in model]
                fs = fs / cfg["q"]
            elif op == "det":
                su.detrend_data(**p)
                p2 = {k2: v for k2, v in p.items() if k2 != "overwrite_data"}
                model = [signal.detrend(x, axis=0, **p2) for x in model]
            elif op == "filt":
                Wn = 0.2 * fs if p.get("btype") != "bandpass" else (0.1 * fs, 0.2 * fs)
                su.filter_data(Wn=Wn, **p)
                # reference from scipy's own primitives with their documented defaults (not pyOMA2's wrapper)
                sos = signal.butter(p.get("order", 8), Wn, btype=p.get("btype", "lowpass"), output="sos", fs=fs)
                model = [signal.sosfiltfilt(sos, x, axis=0) for x in model]
            elif op == "roll":
                su.rollback()
                model = [u.copy() for u in backup]
                fs = fs0
        except Exception as e:  # noqa: BLE001
            return True, f"{site}.{op}({p}) raised {type(e).__name__}: {e}", f"{site}:{op}:raises:{type(e).__name__}"
    alg = afdd.FDD(name="probe")
    su.add_algorithms(alg)

    def close(a, b):
        return np.shape(a) == np.shape(b) and np.allclose(a, b, rtol=1e-9, atol=1e-9)
    for u, b in zip(user, backup):
        if not np.array_equal(u, b):
            return True, f"{site}: history {seq} {cfg.get('kw') or ''} modified the array the user passed in", f"{site}:frame:user-array-modified"
    init = [su._initial_data] if kind == "single" else list(su._initial_datasets)
    for a, b in zip(init, backup):
        if not np.array_equal(a, b):
            return True, f"{site}: history {seq} modified the stored initial copy", f"{site}:frame:initial-copy-modified"
    if kind == "single":
        if not close(alg.data, model[0]):
            return True, f"{site}: data after {seq} differs from the same scipy operations", f"{site}:data"
        lens = [model[0].shape[0]]
        if su.Ndat != lens[0]:
            return True, f"{site}: Ndat={su.Ndat}, data has {lens[0]} samples", f"{site}:Ndat"
        Ts = [su.T]
    else:
        for i in range(len(user)):
            mov = [ch for ch in range(user[i].shape[1]) if ch not in refs[i]]
            if not close(alg.data[i]["ref"], model[i][:, refs[i]].T) or not close(alg.data[i]["mov"], model[i][:, mov].T):
                return True, (f"{site}: data of dataset {i} after {seq} differs from the same scipy operations applied in that "
                              f"sequence (reference/roving split re-applied)"), f"{site}:data:stale-datasets"
            if not close(su.datasets[i], model[i]):
                return True, f"{site}: datasets[{i}] after {seq} is not the processed dataset", f"{site}:datasets"
        lens = [m_.shape[0] for m_ in model]
        if list(su.Ndats) != lens:
            return True, f"{site}: Ndats={su.Ndats}, datasets have {lens} samples", f"{site}:Ndats"
        Ts = list(su.Ts)
    if abs(su.fs - fs) > 1e-9 * fs or abs(alg.fs - fs) > 1e-9 * fs:
        return True, f"{site}: fs={su.fs} (algorithm {alg.fs}) after {seq}, expected {fs}", f"{site}:fs"
    if abs(su.dt * su.fs - 1) > 1e-9:
        return True, f"{site}: dt={su.dt} but fs={su.fs} after {seq}", f"{site}:dt"
    for n, T in zip(lens, Ts):
        if abs(T - n / fs) > 1e-9 * (n / fs):
            return True, f"{site}: duration {T} for {n} samples at fs={fs} (expected {n / fs}) after {seq}", f"{site}:T"
    return False, "data, metadata and frame as specified", None


def replay(ob, cfg, inputs):
    v, d, _ = replay_hist(cfg, inputs)
    return v, d
