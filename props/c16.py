"""C16 — interactive pole picking hands over exactly the picked (frequency, order) pairs."""
import itertools

import numpy as np
import z3

from symx.arr import SymArray, fresh
from symx.core import SB, SV, Explorer, concretize, differs, lift
from symx.harness import Tally, to_json
from symx.twin import World

PROPERTY = "C16"
META = {
    "explanation": "Real SelFromPlot event handlers (on_click_SSI, on_click_FDD, get_closest_pole, get_closest_freq, "
                   "sort_selected_poles, on_key_press/release, __init__ with the Tk main loop replaced by the action "
                   "sequence) and the mpe_from_plot tails of SSIdat/pLSCF run on symbolic pole tables with symbolic click "
                   "coordinates.  O1-O2: one handler step from an ARBITRARY valid selection state (inductive step, covers "
                   "histories of any length); O3: whole histories from the initial state through __init__ to .result; "
                   "O4: hand-over into SSI_mpe/pLSCF_mpe.",
    "bounds": {
        "quick": {"table": "2 rows x 3 orders, any NaN pattern", "pre-state": "0..2 selected pairs at any orders",
                  "histories": "all kind sequences <= 3 over {pick, deselect-one, deselect-nearest, shift-press, shift-release}",
                  "FDD grid": "4 lines"},
        "thorough": {"table": "3 x 3", "pre-state": "0..3 pairs", "histories": "<= 4", "FDD grid": "5 lines"},
    },
    "stubs": ["Tk root/mainloop, Figure, plot_stab/plot_svPSD (drawing) are no-ops; matplotlib events are plain objects "
              "with symbolic xdata/ydata"],
    "assumptions": ["click coordinates are finite numbers (clicks outside the axes, xdata None, are not modelled)",
                    "ties in nearest-pole / nearest-order selection: any minimiser is accepted"],
}


ORDMIN = [0]     # run parameter ordmin used by the carriers of the current job
STEP = [1]       # run parameter step (SSI only; the dialog's y axis stays the column index)


class Ev:
    def __init__(self, **kw):
        self.__dict__.update(kw)


class _Obj:
    pass


def make_world():
    return World()


def carrier(W, plot, table=None, freq=None):
    from pyoma2.support import sel_from_plot as sfp
    algo = _Obj()
    algo.result = _Obj()
    algo.run_params = _Obj()
    algo.fs = 100.0
    if table is not None:
        algo.result.Fn_poles = table
        algo.result.Lab = np.zeros(table.shape, dtype=int)
        # non-default ordmin: the pole tables still start at column 0 = order 0
        algo.run_params.ordmin, algo.run_params.ordmax, algo.run_params.step = ORDMIN[0], table.shape[1] - 1, STEP[0]
    if freq is not None:
        algo.result.freq = freq
        algo.result.S_val = None
    c = W.carrier(sfp.SelFromPlot, algo=algo, plot=plot, shift_is_held=False, sel_freq=[], freqlim=(0, 50))
    c.plot_stab = lambda *a, **k: None
    c.plot_svPSD = lambda *a, **k: None
    if plot == "FDD":
        c.freq_ind = []
    else:
        c.pole_ind = []
        c.hide_poles, c.show_legend = 1, 0
    return c


# ---------------------------------------------------------------- specification of one step
def absdiff_le(a, b, x):
    """|a-x| <= |b-x| for SV a, b, x  as z3"""
    da, db = a.z - x.z, b.z - x.z
    return z3.If(da >= 0, da, -da) <= z3.If(db >= 0, db, -db)


def pair_eq(p, q):
    if int(p[1]) != int(q[1]):
        return z3.BoolVal(False)
    return z3.Not(differs(p[0], q[0]))


def mset_eq(A, B):
    if len(A) != len(B):
        return z3.BoolVal(False)
    if not A:
        return z3.BoolVal(True)
    return z3.Or(*[z3.And(*[pair_eq(a, B[j]) for a, j in zip(A, perm)]) for perm in itertools.permutations(range(len(B)))])


def list_eq(A, B):
    if len(A) != len(B):
        return z3.BoolVal(False)
    return z3.And(*[pair_eq(a, b) for a, b in zip(A, B)]) if A else z3.BoolVal(True)


def valid_pick_ssi(pair, table, x, y):
    f, o = pair
    ncol = table.shape[1]
    if not (0 <= int(o) < ncol):
        return z3.BoolVal(False)
    yo = lift(int(o))
    ord_ok = z3.And(*[absdiff_le(yo, lift(j), y) for j in range(ncol)])
    rows = []
    for r in range(table.shape[0]):
        c = table[r, int(o)]
        others = [z3.Or(table[i, int(o)].nan, absdiff_le(c, table[i, int(o)], x)) for i in range(table.shape[0])]
        rows.append(z3.And(z3.Not(c.nan), z3.Not(differs(f, c)), *others))
    return z3.And(ord_ok, z3.Or(*rows))


def valid_pick_fdd(pair, freq, x):
    f, k = pair
    if not (0 <= int(k) < len(freq)):
        return z3.BoolVal(False)
    c = freq[int(k)]
    return z3.And(z3.Not(differs(f, c)), *[absdiff_le(c, freq[i], x) for i in range(len(freq))])


def step_spec(kind, held, pre, post, exc, pick_ok, x, col_empty=None):
    """z3 formula: `post` (list of pairs) is a legal successor of `pre` under action `kind`.
    held: z3 Bool; pick_ok(pair) -> z3; exc: exception raised by the handler or None"""
    unchanged = list_eq(pre, post)
    if kind == 1:
        alts = []
        for p in range(len(post)):
            rest = post[:p] + post[p + 1:]
            alts.append(z3.And(pick_ok(post[p]), mset_eq(rest, pre)))
        picked = z3.Or(*alts) if alts else z3.BoolVal(False)
        if exc is not None:
            # allowed only when there is no retained pole at the clicked order; state must be unchanged
            return z3.And(held, col_empty if col_empty is not None else z3.BoolVal(False), unchanged)
        return z3.If(held, picked, unchanged)
    if exc is not None:
        return z3.BoolVal(False)
    if kind == 3:
        if not pre:
            return unchanged
        rem = z3.Or(*[mset_eq(pre[:q] + pre[q + 1:], post) for q in range(len(pre))])
        return z3.If(held, rem, unchanged)
    if kind == 2:
        if not pre:
            return unchanged
        alts = []
        for q in range(len(pre)):
            nearest = z3.And(*[absdiff_le(pre[q][0], pre[j][0], x) for j in range(len(pre))])
            alts.append(z3.And(nearest, mset_eq(pre[:q] + pre[q + 1:], post)))
        return z3.If(held, z3.Or(*alts), unchanged)
    return unchanged


# ---------------------------------------------------------------- jobs
def jobs(tier):
    out = []
    if tier == "quick":
        shp, kmax, hist, nf = (2, 3), 2, 3, 4
    else:
        shp, kmax, hist, nf = (3, 3), 3, 4, 5
    for plot in ("SSI", "pLSCF"):
        for k in range(kmax + 1):
            for ords in itertools.product(range(shp[1]), repeat=k):
                if plot == "pLSCF" and tier == "quick" and k == 2 and ords[0] > ords[1]:
                    continue
                for kind in (1, 2, 3):
                    out.append({"ob": "O1" if kind == 1 else "O2",
                                "cfg": {"plot": plot, "shape": list(shp), "pre_orders": list(ords), "button": kind}})
    for k in range(kmax + 1):
        for inds in itertools.product(range(nf), repeat=k):
            if k >= 2 and tier == "quick" and len(set(inds)) < k and inds[0] != 0:
                continue
            for kind in (1, 2, 3):
                out.append({"ob": "O1" if kind == 1 else "O2",
                            "cfg": {"plot": "FDD", "nf": nf, "pre_inds": list(inds), "button": kind}})
    for plot in ("SSI", "pLSCF"):
        for ords in ((), (1,), (2, 0)):
            out.append({"ob": "O1", "cfg": {"plot": plot, "shape": list(shp), "pre_orders": list(ords), "button": 1, "ordmin": 1}})
        out.append({"ob": "O3", "cfg": {"plot": plot, "shape": [2, 3], "seq": ["press", "b1", "b1"], "ordmin": 1}})
    # SSI run with a non-default order step: the clicked y coordinate is still a column index of the pole table
    for ords in ((), (1,), (2, 0)):
        out.append({"ob": "O1", "cfg": {"plot": "SSI", "shape": list(shp), "pre_orders": list(ords), "button": 1, "step": 2}})
    out.append({"ob": "O3", "cfg": {"plot": "SSI", "shape": [2, 3], "seq": ["press", "b1", "b1"], "step": 2}})
    out.append({"ob": "O2", "cfg": {"plot": "SSI", "keys": True}})
    kinds = ["b1", "b2", "b3", "press", "release"]
    for n in range(1, hist + 1):
        for seq in itertools.product(kinds, repeat=n):
            # histories that never press shift do nothing; keep a few of them, all of the others
            if "press" not in seq and n > 1:
                continue
            if seq.count("b1") == 0 and n > 2:
                continue
            out.append({"ob": "O3", "cfg": {"plot": "SSI", "shape": [2, 3] if tier == "quick" else [2, 3], "seq": list(seq)}})
    for seq in (["press", "b1", "b1"], ["press", "b1", "b1", "b2"][: hist + 1]):
        out.append({"ob": "O3", "cfg": {"plot": "FDD", "nf": nf, "seq": list(seq)}})
        out.append({"ob": "O3", "cfg": {"plot": "pLSCF", "shape": [2, 3], "seq": list(seq)}})
    for plot in ("SSI", "pLSCF"):
        for ords in itertools.product(range(1, 3), repeat=2):
            out.append({"ob": "O4", "cfg": {"plot": plot, "shape": [2, 3], "orders": list(ords)}})
        # two picked poles with the same frequency at different orders (the selection is sorted, not strictly)
        out.append({"ob": "O4", "cfg": {"plot": plot, "shape": [2, 3], "orders": [1, 2], "tie": True}})
        out.append({"ob": "O4", "cfg": {"plot": plot, "shape": [2, 3], "orders": [2, 1], "tie": True}})
    return out


def run(job, tier):
    cfg = job["cfg"]
    ORDMIN[0] = cfg.get("ordmin", 0)
    STEP[0] = cfg.get("step", 1)
    if job["ob"] in ("O1", "O2"):
        if cfg.get("keys"):
            return run_keys(cfg, tier)
        return run_step(cfg, tier)
    if job["ob"] == "O3":
        return run_history(cfg, tier)
    return run_handover(cfg, tier)


def _table(shape):
    return fresh("Fn", tuple(shape), nan=True)


def _freq(nf):
    return fresh("freq", (nf,))


def _freq_sorted(freq):
    return [freq[i].z < freq[i + 1].z for i in range(len(freq) - 1)] + [freq[0].z >= 0]


# ---------------------------------------------------------------- O1/O2: one step from an arbitrary valid state
def run_step(cfg, tier):
    W = make_world()
    plot = cfg["plot"]
    tally = Tally(W, ["SelFromPlot"])
    ex = Explorer(timeout_ms=20000)
    st = {}

    def body():
        x, y = fresh("xdata"), fresh("ydata")
        held = SB(z3.Bool("shift_held"))
        if plot == "FDD":
            freq = _freq(cfg["nf"])
            c = carrier(W, plot, freq=freq)
            pre = [(fresh(f"sel_{i}"), k) for i, k in enumerate(cfg["pre_inds"])]
            c.freq_ind = [k for _, k in pre]
            inv = [pre[i][0].z == freq[k].z for i, k in enumerate(cfg["pre_inds"])] + _freq_sorted(freq)
            st.update(freq=freq, table=None)
        else:
            table = _table(cfg["shape"])
            c = carrier(W, plot, table=table)
            pre = [(fresh(f"sel_{i}"), o) for i, o in enumerate(cfg["pre_orders"])]
            c.pole_ind = [o for _, o in pre]
            inv = [z3.Or(*[z3.And(z3.Not(table[r, o].nan), pre[i][0].z == table[r, o].z) for r in range(table.shape[0])])
                   for i, o in enumerate(cfg["pre_orders"])]
            st.update(table=table, freq=None)
        c.sel_freq = [f for f, _ in pre]
        c.shift_is_held = held
        st.update(x=x, y=y, held=held, pre=pre, inv=inv, c=c)
        for a in inv:
            Explorer.cur.assume(a)
        ev = Ev(button=cfg["button"], xdata=x, ydata=y)
        if plot == "FDD":
            c.on_click_FDD(ev)
        else:
            c.on_click_SSI(ev, plot)
        return c

    for e, (kind, res) in ex.run_all(body):
        c = st["c"]
        exc = res if kind == "exc" else None
        idx = c.freq_ind if plot == "FDD" else c.pole_ind
        neg, note = _step_negation(cfg["button"], st, c.sel_freq, idx, exc, plot)
        tally.decide(e, neg, on_sat=lambda m: cex_step(cfg, st, m, note), label=f"button={cfg['button']}")
    return tally.result(ex)


def _step_negation(button, st, sel_freq, idx, exc, plot):
    pre = st["pre"]
    if len(sel_freq) != len(idx):
        return z3.BoolVal(True), f"lists out of step: {len(sel_freq)} frequencies, {len(idx)} indices"
    post = list(zip(sel_freq, idx))
    x, y, held = st["x"], st["y"], st["held"].b
    if plot == "FDD":
        pick_ok = lambda p: valid_pick_fdd(p, st["freq"], x)  # noqa: E731
        col_empty = z3.BoolVal(False)
    else:
        table = st["table"]
        pick_ok = lambda p: valid_pick_ssi(p, table, x, y)  # noqa: E731
        # the clicked order has no retained pole
        ncol = table.shape[1]
        col_empty = z3.Or(*[z3.And(z3.And(*[absdiff_le(lift(o), lift(j), y) for j in range(ncol)]),
                                   *[table[r, o].nan for r in range(table.shape[0])]) for o in range(ncol)])
    spec = step_spec(button, held, pre, post, exc, pick_ok, x, col_empty)
    return z3.Not(spec), (f"handler raised {exc!r}" if exc is not None else None)


def cex_step(cfg, st, m, note):
    inputs = {"x": concretize(m, st["x"]), "y": concretize(m, st["y"]), "held": concretize(m, st["held"]),
              "pre_f": [concretize(m, f) for f, _ in st["pre"]]}
    if st["table"] is not None:
        inputs["table"] = concretize(m, st["table"])
    else:
        inputs["freq"] = concretize(m, st["freq"])
    viol, detail, key = replay_step(cfg, inputs)
    return {"inputs": to_json(inputs), "reproduced": viol, "detail": (note + "; " if note else "") + detail, "key": key}


# concrete oracle for one step (used for replay on the real class)
def _real_carrier(plot, table=None, freq=None):
    from pyoma2.support import sel_from_plot as sfp
    algo = _Obj()
    algo.result, algo.run_params, algo.fs = _Obj(), _Obj(), 100.0
    if table is not None:
        algo.result.Fn_poles = table
        algo.run_params.ordmin, algo.run_params.ordmax, algo.run_params.step = ORDMIN[0], table.shape[1] - 1, STEP[0]
    if freq is not None:
        algo.result.freq = freq
    c = object.__new__(sfp.SelFromPlot)
    c.algo, c.plot, c.shift_is_held, c.sel_freq = algo, plot, False, []
    c.plot_stab = lambda *a, **k: None
    c.plot_svPSD = lambda *a, **k: None
    if plot == "FDD":
        c.freq_ind = []
    else:
        c.pole_ind = []
    return c


def _c_step_ok(button, held, pre, post, exc, plot, table, freq, x, y):
    """concrete version of step_spec with float tolerance; returns (ok, why)"""
    def close(a, b):
        return abs(a - b) <= 1e-9 * (1 + abs(a) + abs(b))

    def peq(p, q):
        return int(p[1]) == int(q[1]) and close(p[0], q[0])

    def meq(A, B):
        if len(A) != len(B):
            return False
        return any(all(peq(a, B[j]) for a, j in zip(A, perm)) for perm in itertools.permutations(range(len(B))))

    def pick_ok(p):
        f, o = p
        if plot == "FDD":
            d = np.abs(freq - x)
            return 0 <= o < len(freq) and close(f, freq[o]) and d[o] <= d.min() * (1 + 1e-9) + 1e-12
        if not 0 <= o < table.shape[1]:
            return False
        dy = np.abs(np.arange(table.shape[1]) - y)
        if dy[o] > dy.min() + 1e-12:
            return False
        col = table[:, o]
        d = np.abs(col - x)
        good = [r for r in range(len(col)) if not np.isnan(col[r]) and close(f, col[r]) and d[r] <= np.nanmin(d) + 1e-9]
        return bool(good)

    unchanged = len(pre) == len(post) and all(peq(a, b) for a, b in zip(pre, post))
    if exc is not None:
        if button == 1 and held and plot != "FDD":
            dy = np.abs(np.arange(table.shape[1]) - y)
            o = int(np.argmin(dy))
            if np.all(np.isnan(table[:, o])) and unchanged:
                return True, ""
        return False, f"handler raised {exc!r}"
    if not held or button not in (1, 2, 3):
        return unchanged, "state changed without the modifier"
    if button == 1:
        for p in range(len(post)):
            if pick_ok(post[p]) and meq(post[:p] + post[p + 1:], pre):
                return True, ""
        return False, "post-state is not pre-state plus the nearest (pole, order) pair"
    if not pre:
        return unchanged, "empty selection changed"
    if button == 3:
        return any(meq(pre[:q] + pre[q + 1:], post) for q in range(len(pre))), "post-state is not pre-state minus one pair"
    d = [abs(p[0] - x) for p in pre]
    ok = any(d[q] <= min(d) + 1e-9 and meq(pre[:q] + pre[q + 1:], post) for q in range(len(pre)))
    return ok, "post-state is not pre-state minus the pair nearest in frequency to the click"


def replay_step(cfg, inputs):
    plot = cfg["plot"]
    table = np.array(inputs["table"], dtype=float) if "table" in inputs else None
    freq = np.array(inputs["freq"], dtype=float) if "freq" in inputs else None
    c = _real_carrier(plot, table, freq)
    idx0 = cfg["pre_inds"] if plot == "FDD" else cfg["pre_orders"]
    pre = [(np.float64(f), int(k)) for f, k in zip(inputs["pre_f"], idx0)]
    c.sel_freq = [p[0] for p in pre]
    if plot == "FDD":
        c.freq_ind = [p[1] for p in pre]
    else:
        c.pole_ind = [p[1] for p in pre]
    c.shift_is_held = bool(inputs["held"])
    x, y = np.float64(inputs["x"]), np.float64(inputs["y"])
    ev = Ev(button=cfg["button"], xdata=x, ydata=y)
    exc = None
    try:
        if plot == "FDD":
            c.on_click_FDD(ev)
        else:
            c.on_click_SSI(ev, plot)
    except Exception as e:  # noqa: BLE001
        exc = e
    idx = c.freq_ind if plot == "FDD" else c.pole_ind
    if len(idx) != len(c.sel_freq):
        return True, f"lists out of step: sel_freq={c.sel_freq} indices={idx}", "SelFromPlot:lists-out-of-step"
    post = [(float(f), int(k)) for f, k in zip(c.sel_freq, idx)]
    ok, why = _c_step_ok(cfg["button"], bool(inputs["held"]), [(float(f), k) for f, k in pre], post, exc, plot, table, freq,
                         float(x), float(y))
    if ok:
        return False, "step conforms", None
    detail = (f"plot={plot} button={cfg['button']} held={inputs['held']} click=({float(x):.6g},{float(y):.6g}) "
              f"pre={[(round(f, 6), k) for f, k in pre]} post={[(round(f, 6), k) for f, k in post]}: {why}")
    # classification: are the post frequencies/indices each the right multisets but re-paired?
    key = "SelFromPlot:step-nonconforming"
    if exc is None and cfg["button"] == 1 and len(post) == len(pre) + 1:
        fs_ok = sorted(round(f, 9) for f, _ in post)
        ks = sorted(k for _, k in post)
        for p in range(len(post)):
            pass
        key = "SelFromPlot:pick:pairs-scrambled-by-sorting" if ks == sorted([k for _, k in pre] + [post[-1][1]]) and fs_ok else key
    return True, detail, key


# ---------------------------------------------------------------- key handlers
def run_keys(cfg, tier):
    W = make_world()
    tally = Tally(W, ["SelFromPlot.on_key"])
    ex = Explorer()
    for key in ("shift", "a", "control"):
        for handler in ("on_key_press", "on_key_release"):
            st = {}

            def body():
                c = carrier(W, "SSI", table=_table((2, 2)))
                held0 = SB(z3.Bool("held0"))
                c.shift_is_held = held0
                c.sel_freq, c.pole_ind = [fresh("f0")], [1]
                st["c"], st["held0"] = c, held0
                getattr(c, handler)(Ev(key=key))
                return c
            for e, (kind, res) in ex.run_all(body):
                c = st["c"]
                if kind == "exc":
                    neg = z3.BoolVal(True)
                else:
                    want = (handler == "on_key_press") if key == "shift" else None
                    got = c.shift_is_held
                    gotb = got.b if isinstance(got, SB) else z3.BoolVal(bool(got))
                    ok = (gotb == z3.BoolVal(want)) if want is not None else (gotb == st["held0"].b)
                    ok = z3.And(ok, z3.BoolVal(len(c.sel_freq) == 1 and c.pole_ind == [1]))
                    neg = z3.Not(ok)
                tally.decide(e, neg, on_sat=lambda m: {"inputs": {"key": key, "handler": handler}, "reproduced":
                             replay_keys(key, handler)[0], "detail": replay_keys(key, handler)[1], "key": "SelFromPlot:keys"},
                             label=f"{handler}({key})")
    return tally.result(ex)


def replay_keys(key, handler):
    for held0 in (False, True):
        c = _real_carrier("SSI", np.zeros((2, 2)))
        c.shift_is_held = held0
        getattr(c, handler)(Ev(key=key))
        want = (handler == "on_key_press") if key == "shift" else held0
        if c.shift_is_held != want:
            return True, f"{handler}({key!r}) from held={held0} -> {c.shift_is_held}"
    return False, "key handlers conform"


# ---------------------------------------------------------------- O3: histories through __init__ to .result
class _Root:
    def __init__(self, script):
        self.script = script

    def mainloop(self):
        self.script()

    def quit(self):
        pass

    def destroy(self):
        pass


def _drive(c, plot, seq, coords):
    """returns the list of (pre, post, exc, kind, held) snapshots, driving the handlers"""
    log = []
    for i, a in enumerate(seq):
        idx = c.freq_ind if plot == "FDD" else c.pole_ind
        pre = list(zip(list(c.sel_freq), list(idx)))
        held = c.shift_is_held
        exc = None
        try:
            if a == "press":
                c.on_key_press(Ev(key="shift"))
            elif a == "release":
                c.on_key_release(Ev(key="shift"))
            else:
                ev = Ev(button=int(a[1]), xdata=coords[i][0], ydata=coords[i][1])
                if plot == "FDD":
                    c.on_click_FDD(ev)
                else:
                    c.on_click_SSI(ev, plot)
        except Exception as e:  # noqa: BLE001
            exc = e
        idx = c.freq_ind if plot == "FDD" else c.pole_ind
        post = list(zip(list(c.sel_freq), list(idx))) if len(idx) == len(c.sel_freq) else None
        log.append((a, held, pre, post, exc))
    return log


def run_history(cfg, tier):
    from pyoma2.support import sel_from_plot as sfp
    W = make_world()
    plot, seq = cfg["plot"], cfg["seq"]
    tally = Tally(W, ["SelFromPlot"])
    ex = Explorer(timeout_ms=20000, max_paths=20000)
    st = {}

    def body():
        coords = [(fresh(f"x{i}"), fresh(f"y{i}")) for i in range(len(seq))]
        table = _table(cfg["shape"]) if plot != "FDD" else None
        freq = _freq(cfg["nf"]) if plot == "FDD" else None
        if freq is not None:
            for a in _freq_sorted(freq):
                Explorer.cur.assume(a)
        algo = _Obj()
        algo.result, algo.run_params, algo.fs = _Obj(), _Obj(), 100.0
        if table is not None:
            algo.result.Fn_poles = table
            algo.result.Lab = np.zeros(table.shape, dtype=int)
            algo.run_params.ordmin, algo.run_params.ordmax, algo.run_params.step = ORDMIN[0], table.shape[1] - 1, STEP[0]
        else:
            algo.result.freq, algo.result.S_val = freq, None
        T = W.cls(sfp.SelFromPlot)
        c = object.__new__(T)
        st.update(coords=coords, table=table, freq=freq, c=c)

        def gui():
            c.root = _Root(lambda: st.__setitem__("log", _drive(c, plot, seq, coords)))
        c._initialize_gui = gui
        c.plot_stab = lambda *a, **k: None
        c.plot_svPSD = lambda *a, **k: None
        T.__init__(c, algo=algo, freqlim=None, plot=plot)
        return c.result

    for e, (kind, res) in ex.run_all(body):
        if kind == "exc":
            tally.decide(e, z3.BoolVal(True), on_sat=lambda m: cex_hist(cfg, st, m, f"__init__/history raised {res!r}"))
            continue
        log = st["log"]
        oks = []
        note = None
        for i, (a, held, pre, post, exc) in enumerate(log):
            heldb = held.b if isinstance(held, SB) else z3.BoolVal(bool(held))
            if post is None:
                oks.append(z3.BoolVal(False))
                note = "lists out of step"
                continue
            if a in ("press", "release"):
                oks.append(list_eq(pre, post))
                continue
            x, y = st["coords"][i]
            s2 = dict(pre=pre, x=x, y=y, held=SB(heldb), table=st["table"], freq=st["freq"])
            neg, _ = _step_negation(int(a[1]), s2, [p[0] for p in post], [p[1] for p in post], exc, plot)
            oks.append(z3.Not(neg))
        final = log[-1][3] if log and log[-1][3] is not None else []
        if plot == "FDD":
            hand = z3.BoolVal(res[1] is None and len(res[0]) == len(final)) if True else None
            hand = z3.And(hand, *[z3.Not(differs(a, b[0])) for a, b in zip(res[0], final)]) if len(res[0]) == len(final) else z3.BoolVal(False)
        else:
            if len(res[0]) == len(res[1]) == len(final):
                hand = list_eq(list(zip(res[0], res[1])), final)
            else:
                hand = z3.BoolVal(False)
        tally.decide(e, z3.Not(z3.And(hand, *oks)), on_sat=lambda m: cex_hist(cfg, st, m, note), label="history " + ",".join(seq))
    return tally.result(ex)


def cex_hist(cfg, st, m, note):
    inputs = {"coords": [[concretize(m, x), concretize(m, y)] for x, y in st["coords"]]}
    if st["table"] is not None:
        inputs["table"] = concretize(m, st["table"])
    else:
        inputs["freq"] = concretize(m, st["freq"])
    viol, detail, key = replay_hist(cfg, inputs)
    return {"inputs": to_json(inputs), "reproduced": viol, "detail": (note + "; " if note else "") + detail, "key": key}


def replay_hist(cfg, inputs):
    plot, seq = cfg["plot"], cfg["seq"]
    table = np.array(inputs["table"], dtype=float) if "table" in inputs else None
    freq = np.array(inputs["freq"], dtype=float) if "freq" in inputs else None
    c = _real_carrier(plot, table, freq)
    coords = [(np.float64(x), np.float64(y)) for x, y in inputs["coords"]]
    log = _drive(c, plot, seq, coords)
    for i, (a, held, pre, post, exc) in enumerate(log):
        if post is None:
            return True, f"step {i} ({a}): lists out of step", "SelFromPlot:lists-out-of-step"
        if a in ("press", "release"):
            if [(float(f), k) for f, k in pre] != [(float(f), k) for f, k in post]:
                return True, f"step {i} ({a}) changed the selection", "SelFromPlot:key-changes-selection"
            continue
        ok, why = _c_step_ok(int(a[1]), bool(held), [(float(f), int(k)) for f, k in pre], [(float(f), int(k)) for f, k in post],
                             exc, plot, table, freq, float(coords[i][0]), float(coords[i][1]))
        if not ok:
            detail = (f"history {seq} coords={[(round(float(x), 6), round(float(y), 6)) for x, y in coords]} step {i}: "
                      f"pre={[(round(float(f), 6), int(k)) for f, k in pre]} post={[(round(float(f), 6), int(k)) for f, k in post]}: {why}")
            key = "SelFromPlot:pick:pairs-scrambled-by-sorting" if a == "b1" and exc is None and len(post) == len(pre) + 1 \
                and sorted(k for _, k in post) == sorted([k for _, k in pre] + [post[-1][1]]) else "SelFromPlot:step-nonconforming"
            return True, detail, key
    return False, "history conforms", None


# ---------------------------------------------------------------- O4: hand-over to extraction
def run_handover(cfg, tier):
    """state satisfying the invariant -> mpe_from_plot tail of the algorithm class (SelFromPlot replaced by the
    state) -> the extracted modes are exactly those poles (whole), order_out = picked orders"""
    import pyoma2.algorithms.plscf as aplscf
    import pyoma2.algorithms.ssi as assi
    plot = cfg["plot"]
    st = {}

    class FakeSFP:
        def __init__(self, algo, freqlim, plot):
            self.result = st["handed"]

    mod = assi if plot == "SSI" else aplscf
    W = World(per_module={mod.__name__: {"SelFromPlot": FakeSFP}})
    tally = Tally(W, ["mpe_from_plot", "SSI_mpe", "pLSCF_mpe"])
    ex = Explorer(timeout_ms=20000)
    R, C = cfg["shape"]
    nch = 2

    def body():
        Fn = fresh("Fn", (R, C), nan=True)
        Xi = fresh("Xi", (R, C))
        Phi = fresh("Phi", (R, C, nch), complex_=True)
        rows = [Explorer.cur.choose(R, f"row{i}") for i in range(len(cfg["orders"]))]
        if cfg.get("tie"):
            # equal frequencies are concrete floats (as they are in a real pole table): value-keyed containers see them as equal
            for r, o in zip(rows, cfg["orders"]):
                Fn[r, o] = lift(5.0)
        pairs = [((np.float64(5.0) if cfg.get("tie") else Fn[r, o].copy()), o) for r, o in zip(rows, cfg["orders"])]
        for (f, o), r in zip(pairs, rows):
            if cfg.get("tie"):
                continue
            Explorer.cur.assume(z3.Not(Fn[r, o].nan))
            Explorer.cur.assume(Fn[r, o].z > 0)
        # the dialog keeps the selection sorted by frequency
        for i in range(len(pairs) - 1):
            if not cfg.get("tie"):
                Explorer.cur.assume(pairs[i][0].z < pairs[i + 1][0].z)
        st["handed"] = ([p[0] for p in pairs], [p[1] for p in pairs])
        st.update(Fn=Fn, Xi=Xi, Phi=Phi, pairs=pairs, rows=rows)
        cls = assi.SSIdat if plot == "SSI" else aplscf.pLSCF
        res = _Obj()
        res.Fn_poles, res.Xi_poles, res.Phi_poles = Fn, Xi, Phi
        res.Fn_poles_cov = res.Xi_poles_cov = res.Phi_poles_cov = None
        res.Lab = np.ones((R, C), dtype=int)
        rp = _Obj()
        rp.ordmax, rp.ordmin, rp.step = C - 1, 0, 1
        alg = W.carrier(cls, result=res, run_params=rp, name="alg", fs=100.0)
        alg.mpe_from_plot(freqlim=None, rtol=1e-2)
        return alg.result

    for e, (kind, res) in ex.run_all(body):
        if kind == "exc":
            tally.decide(e, z3.BoolVal(True), on_sat=lambda m: cex_hand(cfg, st, m, f"mpe_from_plot raised {res!r}"))
            continue
        Fn, Xi, Phi, pairs = st["Fn"], st["Xi"], st["Phi"], st["pairs"]
        n = len(pairs)
        ok = []
        oo = list(np.asarray(res.order_out).ravel()) if res.order_out is not None else []
        if len(oo) != n or len(res.Fn) != n or len(res.Xi) != n or np.shape(res.Phi) != (nch, n):
            neg = z3.BoolVal(True)
        else:
            off = 1 if plot == "pLSCF" else 0   # pLSCF tables: column j holds order j+1; the dialog's y axis is the column
            for i, (f, o) in enumerate(pairs):
                alts = []
                for r in range(R):
                    same = [z3.Not(Fn[r, o].nan), z3.Not(differs(res.Fn[i], Fn[r, o])), z3.Not(differs(f, Fn[r, o])),
                            z3.Not(differs(res.Xi[i], Xi[r, o]))]
                    same += [z3.Not(differs(res.Phi[c, i], Phi[r, o, c])) for c in range(nch)]
                    alts.append(z3.And(*same))
                ok.append(z3.And(z3.BoolVal(int(oo[i]) == o), z3.Or(*alts)))
            neg = z3.Not(z3.And(*ok))
        tally.decide(e, neg, on_sat=lambda m: cex_hand(cfg, st, m, None), label=f"orders={cfg['orders']}")
    return tally.result(ex)


def cex_hand(cfg, st, m, note):
    inputs = {"Fn": concretize(m, st["Fn"]), "Xi": concretize(m, st["Xi"]), "Phi": concretize(m, st["Phi"]),
              "sel": [concretize(m, p[0]) for p in st["pairs"]]}
    viol, detail, key = replay_hand(cfg, inputs)
    return {"inputs": to_json(inputs), "reproduced": viol, "detail": (note + "; " if note else "") + detail, "key": key}


def replay_hand(cfg, inputs):
    import pyoma2.algorithms.plscf as aplscf
    import pyoma2.algorithms.ssi as assi
    plot = cfg["plot"]
    mod = assi if plot == "SSI" else aplscf
    Fn, Xi, Phi = (np.array(inputs[k]) for k in ("Fn", "Xi", "Phi"))
    sel = [np.float64(v) for v in inputs["sel"]]
    orders = [int(o) for o in cfg["orders"]]

    class FakeSFP:
        def __init__(self, algo, freqlim, plot):
            self.result = (list(sel), list(orders))

    cls = assi.SSIdat if plot == "SSI" else aplscf.pLSCF
    res = _Obj()
    res.Fn_poles, res.Xi_poles, res.Phi_poles = Fn.astype(float), Xi.astype(float), Phi
    res.Fn_poles_cov = res.Xi_poles_cov = res.Phi_poles_cov = None
    res.Lab = np.ones(Fn.shape, dtype=int)
    rp = _Obj()
    rp.ordmax, rp.ordmin, rp.step = Fn.shape[1] - 1, 0, 1
    alg = object.__new__(cls)
    alg.result, alg.run_params, alg.name, alg.fs = res, rp, "alg", 100.0
    old = mod.SelFromPlot
    mod.SelFromPlot = FakeSFP
    try:
        alg.mpe_from_plot(freqlim=None, rtol=1e-2)
    except Exception as e:  # noqa: BLE001
        return True, f"mpe_from_plot raised {type(e).__name__}: {e}", "mpe_from_plot:raises"
    finally:
        mod.SelFromPlot = old
    out = alg.result
    oo = list(np.asarray(out.order_out).ravel()) if out.order_out is not None else []
    if len(oo) != len(sel) or len(out.Fn) != len(sel):
        return True, f"handed {len(sel)} pairs, got {len(out.Fn)} modes / order_out={oo}", "mpe_from_plot:count"
    for i, (f, o) in enumerate(zip(sel, orders)):
        rows = [r for r in range(Fn.shape[0]) if not np.isnan(Fn[r, o]) and abs(Fn[r, o] - f) < 1e-9 * (1 + abs(f))
                and abs(out.Fn[i] - Fn[r, o]) < 1e-9 * (1 + abs(f)) and abs(out.Xi[i] - Xi[r, o]) < 1e-9 * (1 + abs(Xi[r, o]))
                and np.allclose(out.Phi[:, i], Phi[r, o, :], rtol=1e-9, atol=1e-12)]
        if int(oo[i]) != o or not rows:
            return True, (f"pair {i} (f={float(f):.6g}, order {o}) -> Fn={out.Fn[i]:.6g} Xi={out.Xi[i]:.6g} order_out={oo[i]}: "
                          "not that pole"), "mpe_from_plot:wrong-pole"
    return False, "extracted modes are the handed poles", None


def replay(ob, cfg, inputs):
    if ob in ("O1", "O2"):
        if cfg.get("keys"):
            return replay_keys(inputs["key"], inputs["handler"])
        v, d, _ = replay_step(cfg, inputs)
    elif ob == "O3":
        v, d, _ = replay_hist(cfg, inputs)
    else:
        v, d, _ = replay_hand(cfg, inputs)
    return v, d
