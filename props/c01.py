"""C01 — SSI recovers exact modal parameters from noise-free free-vibration data (unit lemmas on the realisation path)."""
import itertools
import math

import numpy as np
import z3

from symx.arr import NPProxy, SymArray, fork_where, fresh
from symx.core import SC, SV, Abort, Explorer, ShimGap, concretize, differs, differs_nan, lift, sqof, toc
from symx.harness import Tally, to_json
from symx.twin import World

PROPERTY = "C01"
META = {
    "explanation": "The places where pyOMA2's own code can break exactness, each as a unit with the neighbouring LAPACK kernel under contract: "
                   "O2 the real ssi.SSI_fast and ssi.SSI are run on a factor-parametrised input - the SVD stub hands back an observability "
                   "matrix O*T with O = [C; CA; CA^2; ...] of a symbolic order-2 system (A = [[a,-b],[b,a]], C symbolic) and T a symbolic "
                   "invertible basis change; the QR least-squares idiom (qr(O_p), Q^T O_m, inv(R[:i,:i]) S[:i,:i]) and pinv are evaluated as "
                   "the normal-equation solution of the leading i columns (their documented meaning, adjugate/determinant form); z3 shows "
                   "T*A_est == A*T (the identified state matrix is similar to the true one), C_est == C*T and the list position = model "
                   "order.  O3 the real ssi.ac2mp under an eig stub / uninterpreted log: lam_c = L(lambda)/dt, fn^2 (2 pi)^2 = |lam_c|^2, "
                   "xi^2 |lam_c|^2 = Re^2 with opposite signs, shapes = C v_j normalised by the largest-modulus component, row j belongs to "
                   "eigenvalue j.  O4 the real ssi.SSI_poles (ac2mp stubbed to tagged symbols): column ii holds the ii poles of order ii in "
                   "rows 0..ii-1, everything else (including column 0) is NaN.  O5 the real SSIdat/SSIcov.run with identification stubbed to "
                   "label-carrying tables: reference rows handed to build_hank are the channels ref_ind in the listed order and component k "
                   "of every stored mode shape belongs to data channel k.",
    "bounds": {"quick": {"order": 2, "channels": "1..2", "block rows": "2..3", "O4": "ordmax 3, 2 channels"},
               "thorough": {"order": 2, "channels": "1..3", "block rows": "2..4", "O4": "ordmax 4"}},
    "stubs": ["np.linalg.svd: returns prescribed factors (first ordmax left singular vectors scaled by sqrt(s) span col(H): Obs = O*T)",
              "np.linalg.qr / inv / dot idiom and np.linalg.pinv: normal-equation solution in closed form (<= 2 columns)",
              "scipy.linalg.eig: symbolic eigenpairs; np.log uninterpreted"],
    "assumptions": ["A-svd: the truncated SVD of an exact rank-2m Hankel matrix spans its column space (standard)",
                    "the shifted observability block O_p has full column rank (divisor side condition)",
                    "end-to-end float accuracy through LAPACK and orders > 2 are outside the claim; the Hankel layout is C12"],
}


# ------------------------------------------------------------------------------------------ least-squares idiom stubs
class _Opaque:
    pass


class QFactor(_Opaque):
    def __init__(self, M):
        self.M = M

    @property
    def T(self):
        return QT(self.M)


class QT(_Opaque):
    def __init__(self, M):
        self.M = M


class SFactor(_Opaque):
    """S = Q^T O_m"""

    def __init__(self, M, B):
        self.M, self.B = M, B

    def __getitem__(self, key):
        r, c = key
        if not (isinstance(r, slice) and isinstance(c, slice) and r.start is None and c.start is None and r.stop == c.stop):
            raise ShimGap("QR idiom stub: S is only usable as S[:i, :i]")
        return SSub(self.M, self.B, r.stop)


class SSub(_Opaque):
    def __init__(self, M, B, i):
        self.M, self.B, self.i = M, B, i


class RFactor(_Opaque):
    def __init__(self, M):
        self.M = M

    def __getitem__(self, key):
        r, c = key
        if not (isinstance(r, slice) and isinstance(c, slice) and r.start is None and c.start is None and r.stop == c.stop):
            raise ShimGap("QR idiom stub: R is only usable as R[:i, :i]")
        return RSub(self.M, r.stop)


class RSub(_Opaque):
    def __init__(self, M, i):
        self.M, self.i = M, i


class RInv(_Opaque):
    def __init__(self, M, i):
        self.M, self.i = M, i


def normal_solve(M, B):
    """(M^T M)^-1 M^T B for M with <= 2 columns, adjugate form (fractions)"""
    M = np.asarray(M, dtype=object)
    B = np.asarray(B, dtype=object)
    k = M.shape[1]
    if k == 0:
        return SymArray(np.empty((0, B.shape[1]), dtype=object))
    if k > 2:
        raise ShimGap("normal-equation stub: more than 2 columns")
    G = [[sum((lift(M[t, i]) * lift(M[t, j]) for t in range(M.shape[0])), lift(0)) for j in range(k)] for i in range(k)]
    MtB = [[sum((lift(M[t, i]) * lift(B[t, j]) for t in range(M.shape[0])), lift(0)) for j in range(B.shape[1])] for i in range(k)]
    X = np.empty((k, B.shape[1]), dtype=object)
    if k == 1:
        for j in range(B.shape[1]):
            X[0, j] = MtB[0][j] / G[0][0]
    else:
        det = G[0][0] * G[1][1] - G[0][1] * G[1][0]
        for j in range(B.shape[1]):
            X[0, j] = (G[1][1] * MtB[0][j] - G[0][1] * MtB[1][j]) / det
            X[1, j] = (G[0][0] * MtB[1][j] - G[1][0] * MtB[0][j]) / det
    return SymArray(X)


class LA:
    def __init__(self):
        self.svd_out = []       # prescribed (U, S) factors, consumed in call order
        self.svd_calls = []

    def svd(self, H, full_matrices=True, compute_uv=True, hermitian=False):
        if hermitian or not compute_uv:
            raise ShimGap("svd stub: options not modelled")
        self.svd_calls.append(H)
        if not self.svd_out:
            raise ShimGap("svd stub: no factors prescribed")
        U, S = self.svd_out.pop(0)
        nc = np.shape(H)[1]
        V = fresh(f"svdV{len(self.svd_calls)}", (nc, nc))      # right factor: only used by the uncertainty branch
        return U, S, V

    def qr(self, M, mode="reduced"):
        if mode != "reduced":
            raise ShimGap("qr stub: mode")
        return QFactor(M), RFactor(M)

    def inv(self, X):
        if isinstance(X, RSub):
            return RInv(X.M, X.i)
        raise ShimGap("inv stub: only inv(R[:i, :i]) of the QR idiom is modelled")

    def pinv(self, M):
        M = np.asarray(M, dtype=object)
        if M.shape[1] == 0:
            return SymArray(np.empty((0, M.shape[0]), dtype=object))
        return normal_solve(M, np.array([[lift(1.0 if i == j else 0.0) for j in range(M.shape[0])] for i in range(M.shape[0])], dtype=object))

    def __getattr__(self, k):
        raise ShimGap(f"np.linalg.{k} not modelled")


def idiom_dot(a, b, out=None):
    if isinstance(a, QT):
        return SFactor(a.M, np.asarray(b, dtype=object))
    if isinstance(a, RInv) and isinstance(b, SSub):
        if a.i != b.i or a.M is not b.M:
            raise ShimGap("QR idiom stub: mismatched factors")
        i = a.i
        return normal_solve(np.asarray(a.M, dtype=object)[:, :i], b.B[:, :i])
    if isinstance(a, _Opaque) or isinstance(b, _Opaque):
        raise ShimGap("QR idiom stub: unsupported use of Q/R")
    from symx.arr import _dot
    return _dot(a, b)


def make_world(la):
    return World(overrides={"np": NPProxy(linalg=la, dot=idiom_dot, where=fork_where)})


# ------------------------------------------------------------------------------------------ jobs
def jobs(tier):
    out = []
    q = tier == "quick"
    for fn in ("SSI_fast", "SSI"):
        for l in ((1, 2) if q else (1, 2, 3)):
            for br in ((2, 3) if q else (2, 3, 4)):
                if l == 3 and br == 4:
                    continue
                out.append({"ob": "O2", "cfg": {"fn": fn, "l": l, "br": br}})
    for nch in (1, 2, 3):
        out.append({"ob": "O3", "cfg": {"nch": nch}})
    for ordmax in ((3,) if q else (3, 4)):
        out.append({"ob": "O4", "cfg": {"ordmax": ordmax, "nch": 2}})
    for cls in ("SSIdat", "SSIcov"):
        for ref in (None, [0], [2], [2, 0]) if q else (None, [0], [1], [2], [0, 1], [2, 0], [1, 2, 0]):
            out.append({"ob": "O5", "cfg": {"cls": cls, "nch": 3, "ref_ind": ref}})
    return out


def run(job, tier):
    return {"O2": run_real, "O3": run_modal, "O4": run_table, "O5": run_wiring}[job["ob"]](job["cfg"], tier)


def system(l):
    a, b = fresh("a"), fresh("b")
    A = [[a, -b], [b, a]]
    C = [[fresh(f"c{i}{j}") for j in range(2)] for i in range(l)]
    return A, C


def mm(X, Y):
    return [[sum((lift(X[i][k]) * lift(Y[k][j]) for k in range(len(Y))), lift(0)) for j in range(len(Y[0]))] for i in range(len(X))]


def observability(A, C, nblk):
    blocks, cur = [], C
    for _ in range(nblk):
        blocks += cur
        cur = mm(cur, A)
    return blocks


def run_real(cfg, tier):
    from pyoma2.functions import ssi
    la = LA()
    W = make_world(la)
    tm = W.module(ssi)
    tally = Tally(W, [cfg["fn"]])
    ex = Explorer(timeout_ms=60000, push_feas=True)
    l, br = cfg["l"], cfg["br"]
    st = {}

    def body():
        A, C = system(l)
        T = [[fresh(f"t{i}{j}") for j in range(2)] for i in range(2)]
        O = observability(A, C, br + 1)
        Obs = mm(O, T)
        U = SymArray(np.array(Obs, dtype=object))
        S = SymArray(np.array([lift(1.0), lift(1.0)], dtype=object))
        la.svd_out[:] = [(U, S)]
        st.update(A=A, C=C, T=T)
        H = fresh("H", ((br + 1) * l, (br + 1) * l))
        Explorer.cur.assume(T[0][0].v * T[1][1].v - T[0][1].v * T[1][0].v != 0)
        if cfg["fn"] == "SSI_fast":
            Obs_o, Al, Cl, *_ = tm.SSI_fast(H, br, 2, step=1)
        else:
            Al, Cl = tm.SSI(H, br, 2, step=1)
        return Al, Cl

    for e, (kind, res) in ex.run_all(body):
        A, C, T = st["A"], st["C"], st["T"]
        if kind == "exc":
            tally.decide(e, z3.BoolVal(True), on_sat=lambda m: cex_real(cfg, f"raised {type(res).__name__}: {res}"), with_side=False)
            continue
        Al, Cl = res
        why, bad = [], []
        if len(Al) != 3 or len(Cl) != 3 or np.shape(Al[2]) != (2, 2) or np.shape(Cl[2]) != (l, 2) or np.shape(Al[1]) != (1, 1) or np.shape(Cl[1]) != (l, 1):
            why.append(f"list layout: {[np.shape(x) for x in Al]} / {[np.shape(x) for x in Cl]} (position = model order expected)")
        else:
            TA = mm(T, [[Al[2][i, j] for j in range(2)] for i in range(2)])
            AT = mm(A, T)
            CT = mm(C, T)
            for i in range(2):
                for j in range(2):
                    bad.append(differs(TA[i][j], AT[i][j]))
            for i in range(l):
                for j in range(2):
                    bad.append(differs(Cl[2][i, j], CT[i][j]))
                bad.append(differs(Cl[1][i, 0], CT[i][0]))
        neg = z3.BoolVal(True) if why else z3.Or(*bad)
        tally.decide(e, neg, on_sat=lambda m, why=tuple(why): cex_real(cfg, "; ".join(why) or None), with_side=not why,
                     label=f"{cfg['fn']} l={l} br={br}: T A_est == A T, C_est == C T")
    return tally.result(ex)


# ------------------------------------------------------------------------------------------ O5 class wiring
class _O:
    pass


def _wiring_world(cfg, rec, sym):
    """identification stubbed: build_hank records what it is handed; SSI_poles returns tables whose channel axis carries the
    channel of the corresponding row of the Y handed to build_hank (symbolic cells when sym, numbers otherwise)"""
    R, C = 2, 3

    def build_hank(Y, Yref, br, method, calc_unc=False, nb=100):
        rec.update(Y=Y, Yref=Yref, method=method)
        return np.zeros((2, 2)), None

    def SSI_fast(H, br, ordmax, step=1, calc_unc=False, T=None, nb=100):
        return np.zeros((2, 2)), [np.zeros((2, 2))], [np.zeros((2, 2))], None, None, None, None

    def SSI_poles(*a, **k):
        rows = rec["rows"](rec["Y"])
        Fn = np.array([[1.0 + i + 3 * j for j in range(C)] for i in range(R)])
        Xi = np.full((R, C), 0.01)
        L = (-0.05 + 1j) * Fn
        if sym:
            Phi = np.empty((R, C, len(rows)), dtype=object)
            for ix in np.ndindex(R, C):
                for k_, ch in enumerate(rows):
                    Phi[ix + (k_,)] = SC(z3.Real(f"phi_{ix[0]}_{ix[1]}_ch{ch}r"), z3.Real(f"phi_{ix[0]}_{ix[1]}_ch{ch}i"))
            Phi = SymArray(Phi)
        else:
            Phi = np.array([[[(10 * i + j) + 1j * (ch + 1) for ch in rows] for j in range(C)] for i in range(R)])
        return Fn, Xi, Phi, L, None, None, None

    gen_stub = {"MPC": lambda phi: np.float64(1.0), "MPD": lambda phi: np.float64(0.0), "SC_apply": lambda Fn, *a, **k: np.zeros(np.shape(Fn), dtype=int)}
    return {"pyoma2.functions.ssi": {"build_hank": build_hank, "SSI_fast": SSI_fast, "SSI_poles": SSI_poles}, "pyoma2.functions.gen": gen_stub}


def _run_params(cfg):
    rp = _O()
    rp.br, rp.method, rp.ordmin, rp.ordmax, rp.step, rp.calc_unc, rp.nb = 2, None, 0, 2, 1, False, 2
    rp.ref_ind = None if cfg["ref_ind"] is None else list(cfg["ref_ind"])
    rp.sc = dict(err_fn=0.01, err_xi=0.05, err_phi=0.03)
    rp.hc = dict(conj=False, xi_max=1.0, mpc_lim=0.0, mpd_lim=10.0, cov_max=10.0)
    return rp


def run_wiring(cfg, tier):
    """SSIdat/SSIcov.run: the reference data handed to build_hank are the channels ref_ind of the bound data in the listed order,
    and component k of every stored mode shape belongs to data channel k (whatever order the channels were identified in)"""
    import pyoma2.algorithms.ssi as assi
    nch, N = cfg["nch"], 5
    rec = {}
    W = World(per_module=_wiring_world(cfg, rec, True))
    cls = getattr(assi, cfg["cls"])
    tally = Tally(W, [cfg["cls"] + ".run", "SSIdat.run"])
    ex = Explorer()
    st = {}

    def body():
        data = fresh("d", (N, nch))
        st["data"] = data

        def rows(Y):
            Y = np.asarray(Y, dtype=object)
            out = []
            for k in range(Y.shape[0]):
                hit = [c for c in range(nch) if all(z3.eq(lift(Y[k, t]).v, data[t, c].v) for t in range(N))]
                if len(hit) != 1 or Y.shape[1] != N:
                    raise Abort("build_hank was handed rows that are not channels of the bound data")
                out.append(hit[0])
            return out
        rec["rows"] = rows
        alg = W.carrier(cls, run_params=_run_params(cfg), data=data, fs=10.0, dt=0.1, name="alg")
        return alg.run()

    for e, (kind, res) in ex.run_all(body):
        why, bad = [], []
        if kind == "exc":
            why.append(f"raised {type(res).__name__}: {res}")
        else:
            try:
                yrows, rrows = rec["rows"](rec["Y"]), rec["rows"](rec["Yref"])
            except Abort as ex_:
                yrows = rrows = None
                why.append(str(ex_))
            want_ref = list(range(nch)) if cfg["ref_ind"] is None else list(cfg["ref_ind"])
            if yrows is not None:
                if sorted(yrows) != list(range(nch)):
                    why.append(f"build_hank was handed channels {yrows} (every channel exactly once expected)")
                if rrows != want_ref:
                    why.append(f"reference rows handed to build_hank are channels {rrows}, expected {want_ref}")
                Phi = res.Phi_poles
                if np.shape(Phi) != (2, 3, nch):
                    why.append(f"Phi_poles shape {np.shape(Phi)}")
                else:
                    for ix in np.ndindex(2, 3):
                        for ch in range(nch):
                            want = SC(z3.Real(f"phi_{ix[0]}_{ix[1]}_ch{ch}r"), z3.Real(f"phi_{ix[0]}_{ix[1]}_ch{ch}i"))
                            bad.append(differs_nan(Phi[ix + (ch,)], want))
        neg = z3.BoolVal(True) if why else z3.Or(*bad)
        tally.decide(e, neg, on_sat=lambda m, why=tuple(why): cex_wiring(cfg, "; ".join(why) or "component k of the stored shapes is not channel k"),
                     with_side=False, label=f"{cfg['cls']} ref_ind={cfg['ref_ind']}: shape rows follow the data channels")
    return tally.result(ex)


def cex_wiring(cfg, note):
    v, d = replay_wiring(cfg)
    return {"inputs": {}, "reproduced": v, "detail": note + " | " + d, "key": f"{cfg['cls']}.run:channel-order"}


def replay_wiring(cfg):
    """the real run() (real HC filters) with the identification functions replaced by recorders returning numeric tables whose
    channel axis is tagged by the rows of the Y they were handed"""
    import pyoma2.algorithms.ssi as assi
    import pyoma2.functions.gen as fgen
    import pyoma2.functions.ssi as fssi
    nch, N = cfg["nch"], 5
    rec = {}
    data = np.arange(N * nch, dtype=float).reshape(N, nch) + 0.5

    def rows(Y):
        return [int(np.argmin([np.abs(Y[k] - data[:, c]).sum() for c in range(nch)])) for k in range(np.shape(Y)[0])]
    rec["rows"] = rows
    stubs = _wiring_world(cfg, rec, False)
    saved = {(m, k): getattr(m, k) for m, d in ((fssi, stubs["pyoma2.functions.ssi"]), (fgen, stubs["pyoma2.functions.gen"])) for k in d}
    try:
        for (m, k) in saved:
            setattr(m, k, (stubs["pyoma2.functions.ssi"] if m is fssi else stubs["pyoma2.functions.gen"])[k])
        alg = object.__new__(getattr(assi, cfg["cls"]))
        alg.run_params, alg.data, alg.fs, alg.dt, alg.name = _run_params(cfg), data, 10.0, 0.1, "alg"
        res = alg.run()
    except Exception as e:  # noqa: BLE001
        return True, f"run() raised {type(e).__name__}: {e}"
    finally:
        for (m, k), f in saved.items():
            setattr(m, k, f)
    want_ref = list(range(nch)) if cfg["ref_ind"] is None else list(cfg["ref_ind"])
    if rows(rec["Yref"]) != want_ref:
        return True, f"reference rows handed to build_hank are channels {rows(rec['Yref'])}, expected {want_ref}"
    got = np.round(np.asarray(res.Phi_poles)[0, 0, :].imag).astype(int) - 1
    if list(got) != list(range(nch)):
        return True, f"component k of the stored mode shapes belongs to channels {list(got)} (ref_ind={cfg['ref_ind']})"
    return False, "shape rows follow the data channels"


def cex_real(cfg, note):
    v, d = replay_real(cfg)
    return {"inputs": {}, "reproduced": v, "detail": (note + " | " if note else "") + d, "key": f"{cfg['fn']}:realisation"}


def replay_real(cfg):
    """real SSI_fast / SSI on an exact rank-2 Hankel matrix: order-2 model has the system's eigenvalues and C-shapes"""
    from pyoma2.functions import ssi
    l, br = cfg["l"], cfg["br"]
    rng = np.random.RandomState(12)
    rho, th = 0.97, 0.35
    A = rho * np.array([[np.cos(th), -np.sin(th)], [np.sin(th), np.cos(th)]])
    C = rng.randn(l, 2)
    O = np.vstack([C @ np.linalg.matrix_power(A, k) for k in range(br + 1)])
    G = rng.randn(2, (br + 1) * l)
    H = O @ G
    try:
        if cfg["fn"] == "SSI_fast":
            _, Al, Cl, *_ = ssi.SSI_fast(H, br, 2)
        else:
            Al, Cl = ssi.SSI(H, br, 2)
    except Exception as e:  # noqa: BLE001
        return True, f"{cfg['fn']} raised {type(e).__name__}: {e}"
    if len(Al) != 3 or Al[2].shape != (2, 2):
        return True, f"{cfg['fn']}: order-2 model not at list position 2 ({[a.shape for a in Al]})"
    ev = np.sort_complex(np.linalg.eigvals(Al[2]))
    ev0 = np.sort_complex(np.linalg.eigvals(A))
    if not np.allclose(ev, ev0, rtol=1e-7, atol=1e-9):
        return True, f"{cfg['fn']} (l={l}, br={br}): eigenvalues of the identified state matrix {ev} != system's {ev0}"
    w, V = np.linalg.eig(Al[2])
    w0, V0 = np.linalg.eig(A)
    for k in range(2):
        k0 = int(np.argmin(np.abs(w0 - w[k])))
        s1, s0 = Cl[2] @ V[:, k], C @ V0[:, k0]
        mac = abs(np.vdot(s1, s0)) ** 2 / (np.vdot(s1, s1).real * np.vdot(s0, s0).real)
        if abs(mac - 1) > 1e-7:
            return True, f"{cfg['fn']} (l={l}, br={br}): identified shape of pole {w[k]:.4g} has MAC {mac:.6f} with the system's"
    return False, "realisation exact"


# ------------------------------------------------------------------------------------------ O3 modal map
class EigS:
    def __init__(self, n):
        self.n = n

    def eig(self, A, left=False, right=True, **k):
        n = self.n
        self.lam = SymArray(np.array([SC(z3.Real(f"lam{j}r"), z3.Real(f"lam{j}i")) for j in range(n)], dtype=object))
        self.vr = fresh("vr", (n, n), complex_=True)
        vl = fresh("vl", (n, n), complex_=True)
        return (self.lam, vl, self.vr) if left else (self.lam, self.vr)


def run_modal(cfg, tier):
    from pyoma2.functions import ssi
    n, nch = 2, cfg["nch"]
    eig = EigS(n)
    W = World(overrides={"np": NPProxy(where=fork_where)}, per_module={"pyoma2.functions.ssi": {"linalg": eig}})
    tm = W.module(ssi)
    tally = Tally(W, ["ac2mp"])
    ex = Explorer(timeout_ms=30000, push_feas=True, feas_timeout_ms=3000)
    st = {}

    def body():
        dt = fresh("dt", nn=True)
        Explorer.cur.assume(dt.v > 0)
        A = fresh("A", (n, n))
        C = fresh("C", (nch, n))
        st.update(dt=dt, C=C)
        return tm.ac2mp(A, C, dt)

    clr = z3.Function("uf_clog_re", z3.RealSort(), z3.RealSort(), z3.RealSort())
    cli = z3.Function("uf_clog_im", z3.RealSort(), z3.RealSort(), z3.RealSort())
    for e, (kind, res) in ex.run_all(body):
        dt, C = st["dt"], st["C"]
        if kind == "exc":
            tally.decide(e, z3.BoolVal(True), on_sat=lambda m: cex_modal(cfg, f"raised {type(res).__name__}: {res}"), with_side=False)
            continue
        fn, xi, phi, lam_c = res[:4]
        negs = []
        if np.shape(phi) != (n, nch) or np.shape(fn) != (n,):
            negs.append(z3.BoolVal(True))
        else:
            for j in range(n):
                re0 = SV(clr(eig.lam[j].re, eig.lam[j].im)) / dt
                im0 = SV(cli(eig.lam[j].re, eig.lam[j].im)) / dt
                negs.append(z3.Or(differs(toc(lam_c[j]).real, re0), differs(toc(lam_c[j]).imag, im0)))
                mod2 = re0 * re0 + im0 * im0
                negs.append(differs(sqof(lift(fn[j])) * lift(2 * math.pi) * lift(2 * math.pi), mod2))
                negs.append(differs(sqof(lift(xi[j])) * mod2, re0 * re0))
                xj = lift(xi[j])
                if xj.dp and re0.dp:
                    negs.append(xj.v * re0.v > 0)
                u = [sum((toc(C[i, q]) * toc(eig.vr[q, j]) for q in range(n)), toc(0)) for i in range(nch)]
                ks = [c for c in range(nch) if z3.is_false(z3.simplify(differs(phi[j, c], 1)))]
                if not ks:
                    negs.append(z3.BoolVal(True))
                    continue
                for i in range(nch):
                    negs.append(u[i].abs2().v > u[ks[0]].abs2().v)
                    negs.append(differs(toc(phi[j, i]) * u[ks[0]], u[i]))      # row j of phi belongs to eigenvalue j
        for k, neg in enumerate(negs):
            sneg = z3.simplify(neg)
            if z3.is_false(sneg):
                tally.obligations += 1
                tally.discharged += 1
                tally.reach = True
                continue
            v = tally.decide(e, sneg, on_sat=lambda m: cex_modal(cfg, None), label=f"ac2mp nch={nch} [{k}]", timeout_ms=15000)
            if tally.stop:
                break
    return tally.result(ex)


def cex_modal(cfg, note):
    v, d = replay_modal(cfg)
    return {"inputs": {}, "reproduced": v, "detail": (note + " | " if note else "") + d, "key": "ac2mp:modal-map"}


def replay_modal(cfg):
    from pyoma2.functions import ssi
    nch = cfg["nch"]
    rng = np.random.RandomState(5)
    fs = 50.0
    f0, z0 = 3.2, 0.02
    lc = 2 * np.pi * f0 * (-z0 + 1j * np.sqrt(1 - z0 ** 2))
    ld = np.exp(lc / fs)
    A = np.array([[ld.real, -ld.imag], [ld.imag, ld.real]])
    C = rng.randn(nch, 2)
    try:
        fn, xi, phi, lam, *_ = ssi.ac2mp(A, C, 1 / fs)
    except Exception as e:  # noqa: BLE001
        return True, f"ac2mp raised {type(e).__name__}: {e}"
    if not np.allclose(fn, f0, rtol=1e-9) or not np.allclose(xi, z0, rtol=1e-7):
        return True, f"ac2mp: fn={fn}, xi={xi} for a system with f={f0}, xi={z0} at fs={fs}"
    w, V = np.linalg.eig(A)
    for j in range(2):
        jj = int(np.argmin(np.abs(np.log(w) * fs - lam[j])))
        s = C @ V[:, jj]
        s = s / s[np.argmax(np.abs(s))]
        if not np.allclose(phi[j], s, rtol=1e-8, atol=1e-10):
            return True, f"ac2mp: shape row {j} is not C v_j normalised to its largest component"
    return False, "modal map as specified"


# ------------------------------------------------------------------------------------------ O4 pole tables
def run_table(cfg, tier):
    from pyoma2.functions import ssi
    ordmax, nch = cfg["ordmax"], cfg["nch"]

    def fake_ac2mp(A, C, dt, calc_unc=False):
        ii = A
        fn = SymArray(np.array([SV(z3.Real(f"fn_{ii}_{r}"), z3.Bool(f"n_{ii}_{r}")) for r in range(ii)], dtype=object))
        xi = SymArray(np.array([SV(z3.Real(f"xi_{ii}_{r}"), z3.Bool(f"n_{ii}_{r}")) for r in range(ii)], dtype=object))
        phi = SymArray(np.array([[SC(z3.Real(f"p_{ii}_{r}_{c}r"), z3.Real(f"p_{ii}_{r}_{c}i"), z3.Bool(f"n_{ii}_{r}")) for c in range(nch)]
                                 for r in range(ii)], dtype=object).reshape(ii, nch))
        lam = SymArray(np.array([SC(z3.Real(f"l_{ii}_{r}r"), z3.Real(f"l_{ii}_{r}i"), z3.Bool(f"n_{ii}_{r}")) for r in range(ii)], dtype=object))
        return fn, xi, phi, lam, None, None, None

    W = World(per_module={"pyoma2.functions.ssi": {"ac2mp": fake_ac2mp}})
    tm = W.module(ssi)
    tally = Tally(W, ["SSI_poles"])
    ex = Explorer()

    def body():
        AA = list(range(ordmax + 1))
        CC = [np.zeros((nch, k)) for k in range(ordmax + 1)]
        return tm.SSI_poles(None, AA, CC, ordmax, 0.01, step=1, calc_unc=False)

    for e, (kind, res) in ex.run_all(body):
        why, bad = [], []
        if kind == "exc":
            why.append(f"raised {type(res).__name__}: {res}")
        else:
            Fn, Xi, Phi, Lam = res[:4]
            if np.shape(Fn) != (ordmax, ordmax + 1) or np.shape(Phi) != (ordmax, ordmax + 1, nch):
                why.append(f"table shapes {np.shape(Fn)} {np.shape(Phi)}")
            else:
                for ii in range(ordmax + 1):
                    for r in range(ordmax):
                        if r < ii:
                            bad.append(differs_nan(Fn[r, ii], SV(z3.Real(f"fn_{ii}_{r}"), z3.Bool(f"n_{ii}_{r}"))))
                            bad.append(differs_nan(Xi[r, ii], SV(z3.Real(f"xi_{ii}_{r}"), z3.Bool(f"n_{ii}_{r}"))))
                            bad.append(differs_nan(Lam[r, ii], SC(z3.Real(f"l_{ii}_{r}r"), z3.Real(f"l_{ii}_{r}i"), z3.Bool(f"n_{ii}_{r}"))))
                            for c in range(nch):
                                bad.append(differs_nan(Phi[r, ii, c], SC(z3.Real(f"p_{ii}_{r}_{c}r"), z3.Real(f"p_{ii}_{r}_{c}i"), z3.Bool(f"n_{ii}_{r}"))))
                        else:
                            for name, tab in (("Fn", Fn), ("Xi", Xi), ("Lambds", Lam)):
                                v = tab[r, ii]
                                isnan = (isinstance(v, (float, complex)) and v != v) or (isinstance(v, (SV, SC)) and z3.is_true(z3.simplify(v.nan)))
                                if not isnan:
                                    why.append(f"{name}[{r},{ii}] = {v!r} should be NaN")
        neg = z3.BoolVal(True) if why else z3.Or(*bad)
        tally.decide(e, neg, on_sat=lambda m, why=tuple(why): {"inputs": {}, "reproduced": replay_table(cfg)[0], "detail": "; ".join(why[:3]) + " | " +
                                                               replay_table(cfg)[1], "key": "SSI_poles:table"}, label="pole-table assembly")
    return tally.result(ex)


def replay_table(cfg):
    from pyoma2.functions import ssi
    ordmax, nch = cfg["ordmax"], cfg["nch"]
    rng = np.random.RandomState(2)
    AA = [rng.randn(k, k) * 0.5 for k in range(ordmax + 1)]
    CC = [rng.randn(nch, k) for k in range(ordmax + 1)]
    try:
        Fn, Xi, Phi, Lam, *_ = ssi.SSI_poles(None, AA, CC, ordmax, 0.01, step=1, calc_unc=False)
    except Exception as e:  # noqa: BLE001
        return True, f"SSI_poles raised {type(e).__name__}: {e}"
    for ii in range(ordmax + 1):
        if ii:
            fn, xi, phi, lam, *_ = ssi.ac2mp(AA[ii], CC[ii], 0.01)
            if not np.allclose(Fn[:ii, ii], fn, equal_nan=True) or not np.allclose(Phi[:ii, ii, :], phi, equal_nan=True):
                return True, f"column {ii} does not hold the {ii} poles of order {ii} in rows 0..{ii - 1}"
        if not np.all(np.isnan(Fn[ii:, ii])) or not np.all(np.isnan(Xi[ii:, ii])):
            return True, f"column {ii}: rows below the {ii} poles are not NaN"
    return False, "pole tables as specified"


def replay(ob, cfg, inputs):
    if ob == "O2":
        return replay_real(cfg)
    if ob == "O5":
        return replay_wiring(cfg)
    if ob == "O3":
        return replay_modal(cfg)
    return replay_table(cfg)
