"""C13 — spectral matrix estimation: grid, pairing, scaling and phase convention (wiring against scipy's contract)."""
import math

import numpy as np
import z3

from symx.arr import NPProxy, SymArray, fresh
from symx.core import SV, Explorer, concretize, differs, lift
from symx.harness import Tally
from symx.twin import World

PROPERTY = "C13"
META = {
    "explanation": "The real fdd.SD_est runs with scipy.signal.csd, np.fft.irfft/rfft and signal.windows.exponential replaced by "
                   "contract stubs that return vector terms (CSD(x-row, y-row, parameters), IRFFT(v), v*WIN(n, tau, center, sym), RFFT(v)) "
                   "with the documented output lengths; dt is a symbolic real, the segment length a set of concrete values.  Checked: "
                   "entry (i, j) pairs all-channels row i with reference row j; the all-channels array is csd's first (conjugated) "
                   "argument; the parameters that reach csd ('per': fs=1/dt, nperseg=nxseg, noverlap=nxseg*pov, hann; 'cor': "
                   "nperseg=nxseg//2, nfft=nxseg, noverlap=0, boxcar, then irfft -> exponential window tau=-n/ln(0.01) centre 0 -> rfft); "
                   "the 'cor' frequency vector has nxseg//2+1 lines k*fs/nxseg (z3 over symbolic dt), ending at fs/2 for even nxseg; the "
                   "class run() methods forward nxseg, method_SD, pov and dt.",
    "bounds": {"quick": {"n_all": "1..3", "n_ref": "1..2", "nxseg": "8, 9, 16", "pov": "symbolic"}, "thorough": {"nxseg": "8..17"}},
    "stubs": ["scipy.signal.csd -> vector term per (row of x, row of y) with one-sided length nfft//2+1, broadcasting over leading axes as "
              "documented", "np.fft.irfft: m -> 2(m-1) samples, np.fft.rfft: n -> n//2+1 lines (shape contracts)",
              "scipy.signal.windows.exponential -> window term"],
    "assumptions": ["numerical behaviour of Welch / FFT (Hermitian PSD, Parseval, delay phase, sinusoid amplitudes) is scipy's and follows "
                    "from the documented contract given this wiring: outside the solver's claim", "bilinearity and gain^2 scaling follow from "
                    "the contract model (conj(FFT(x)) * FFT(y), linear irfft/window/rfft): paper step"],
}


class Vec:
    """a vector along the last axis, as a term"""

    def __init__(self, kind, *args, n=None):
        self.kind, self.args, self.n = kind, args, n

    def __repr__(self):
        return f"{self.kind}({', '.join(map(repr, self.args))})[{self.n}]"


class Cell:
    __slots__ = ("vec", "k")

    def __init__(self, vec, k):
        self.vec, self.k = vec, k

    def __mul__(self, o):
        if isinstance(o, Cell) and o.vec.kind == "WIN" and o.k == self.k:
            return Cell(Vec("MUL", self.vec, o.vec, n=self.vec.n), self.k)
        return NotImplemented

    __rmul__ = __mul__
    __imul__ = __mul__

    def __repr__(self):
        return f"<{self.vec}@{self.k}>"


def rows_of(a):
    """rows (vectors along the last axis) of an object array of data cells: returns array of row labels"""
    a = np.asarray(a, dtype=object)
    lab = np.empty(a.shape[:-1], dtype=object)
    for ix in np.ndindex(lab.shape):
        c0 = a[ix][0]
        ok = all(isinstance(c, tuple) and c[0] == c0[0] and c[1] == t for t, c in enumerate(a[ix]))
        lab[ix] = c0[0] if ok else None
    return lab


def vec_of(a, ix):
    cells = list(np.asarray(a, dtype=object)[ix])
    v = cells[0].vec if isinstance(cells[0], Cell) else None
    ok = v is not None and all(isinstance(c, Cell) and (c.vec is v or _same(c.vec, v)) and c.k == k for k, c in enumerate(cells))
    return v if ok and len(cells) == v.n else None


def _same(a, b):
    if a is b:
        return True
    if not isinstance(a, Vec) or not isinstance(b, Vec):
        return a == b
    return a.kind == b.kind and a.n == b.n and len(a.args) == len(b.args) and all(_same(x, y) for x, y in zip(a.args, b.args))


class Sig:
    def __init__(self):
        self.csd_calls = []
        self.windows = self

    def csd(self, x, y, fs=1.0, window="hann", nperseg=None, noverlap=None, nfft=None, detrend="constant", return_onesided=True,
            scaling="density", axis=-1, average="mean"):
        x, y = np.asarray(x, dtype=object), np.asarray(y, dtype=object)
        kw = dict(fs=fs, window=window, nperseg=nperseg, noverlap=noverlap, nfft=nfft, detrend=detrend, return_onesided=return_onesided,
                  scaling=scaling, axis=axis, average=average)
        self.csd_calls.append((x, y, kw))
        nf_ = (nfft if nfft is not None else nperseg)
        nl = int(nf_) // 2 + 1
        lx, ly = rows_of(x), rows_of(y)
        lead = np.broadcast_shapes(lx.shape, ly.shape)
        lxb, lyb = np.broadcast_to(lx, lead), np.broadcast_to(ly, lead)
        P = np.empty(lead + (nl,), dtype=object)
        for ix in np.ndindex(lead):
            v = Vec("CSD", lxb[ix], lyb[ix], len(self.csd_calls) - 1, n=nl)
            for k in range(nl):
                P[ix + (k,)] = Cell(v, k)
        fr = lift(fs)
        f = SymArray(np.array([fr * k / int(nf_) for k in range(nl)], dtype=object))
        return f, P

    def exponential(self, M, center=None, tau=1.0, sym=True):
        v = Vec("WIN", int(M), center, float(concretize_float(tau)), bool(sym), n=int(M))
        w = np.empty(int(M), dtype=object)
        for k in range(int(M)):
            w[k] = Cell(v, k)
        return w


def concretize_float(x):
    return float(x)


class FFT:
    def irfft(self, a, n=None, axis=-1):
        a = np.asarray(a, dtype=object)
        m = a.shape[-1]
        n2 = 2 * (m - 1) if n is None else int(n)
        out = np.empty(a.shape[:-1] + (n2,), dtype=object)
        for ix in np.ndindex(a.shape[:-1]):
            v = Vec("IRFFT", vec_of(a, ix), n=n2)
            for k in range(n2):
                out[ix + (k,)] = Cell(v, k)
        return out

    def rfft(self, a, n=None, axis=-1):
        a = np.asarray(a, dtype=object)
        m = a.shape[-1] if n is None else int(n)
        nl = m // 2 + 1
        out = np.empty(a.shape[:-1] + (nl,), dtype=object)
        for ix in np.ndindex(a.shape[:-1]):
            v = Vec("RFFT", vec_of(a, ix), n=nl)
            for k in range(nl):
                out[ix + (k,)] = Cell(v, k)
        return out


def data(name, nrow, N):
    a = np.empty((nrow, N), dtype=object)
    for r in range(nrow):
        for t in range(N):
            a[r, t] = ((name, r), t)
    return a


def jobs(tier):
    out = []
    segs = (8, 9, 16) if tier == "quick" else tuple(range(8, 18))
    for method in ("per", "cor"):
        for nxseg in segs:
            for n_all, n_ref in ((1, 1), (2, 1), (3, 2)):
                out.append({"ob": "O1234", "cfg": {"method": method, "nxseg": nxseg, "n_all": n_all, "n_ref": n_ref}})
    for cls in ("FDD", "EFDD", "pLSCF"):
        out.append({"ob": "O3c", "cfg": {"cls": cls}})
    return out


def run(job, tier):
    if job["ob"] == "O3c":
        return run_classes(job["cfg"], tier)
    return run_sd(job["cfg"], tier)


def run_sd(cfg, tier):
    from pyoma2.functions import fdd
    sig, fft = Sig(), FFT()
    W = World(overrides={"np": NPProxy(fft=fft)}, per_module={"pyoma2.functions.fdd": {"signal": sig}})
    tf = W.module(fdd)
    tally = Tally(W, ["SD_est"])
    ex = Explorer()
    method, nxseg, n_all, n_ref = cfg["method"], cfg["nxseg"], cfg["n_all"], cfg["n_ref"]
    N = 4 * nxseg
    st = {}

    def body():
        dt = fresh("dt", nn=True)
        pov = fresh("pov", nn=True)
        Explorer.cur.assume(dt.v > 0)
        Explorer.cur.assume(z3.And(pov.v >= 0, pov.v < 1))
        st.update(dt=dt, pov=pov)
        sig.csd_calls.clear()
        Yall, Yref = data("all", n_all, N), data("ref", n_ref, N)
        return tf.SD_est(Yall, Yref, dt, nxseg, method=method, pov=pov)

    for e, (kind, res) in ex.run_all(body):
        dt, pov = st["dt"], st["pov"]
        why, bad = [], []
        if kind == "exc":
            why.append(f"raised {type(res).__name__}: {res}")
        else:
            freq, Sy = res
            nl = nxseg // 2 + 1
            if len(sig.csd_calls) != 1:
                why.append(f"{len(sig.csd_calls)} csd calls")
            else:
                x, y, kw = sig.csd_calls[0]
                lx, ly = rows_of(x), rows_of(y)
                # O2: all-channels array is the first (conjugated) argument, references the second; broadcast shapes
                if lx.shape != (n_all, 1) or ly.shape != (1, n_ref) or any(lx[i, 0] != ("all", i) for i in range(n_all)) or \
                        any(ly[0, j] != ("ref", j) for j in range(n_ref)):
                    why.append(f"csd arguments: x rows {lx.tolist()} y rows {ly.tolist()} (expected all-channels (n,1,N) first, references (1,m,N) second)")
                # O3 parameters
                if method == "per":
                    bad += [differs(kw["fs"], lift(1) / dt)]
                    # scipy truncates noverlap with int(): what is judged is the number of overlapping samples
                    no = kw["noverlap"]
                    want = z3.ToInt((pov * nxseg).z)
                    if isinstance(no, (int, np.integer)):
                        bad.append(want != int(no))
                    else:
                        bad.append(z3.Or(lift(no).nan, z3.ToInt(lift(no).z) != want))
                    if kw["nperseg"] != nxseg or kw["window"] != "hann" or kw["nfft"] is not None:
                        why.append(f"'per' csd parameters {dict((k, v) for k, v in kw.items() if k in ('nperseg', 'window', 'nfft'))}")
                else:
                    if kw["nperseg"] != nxseg // 2 or kw["nfft"] != nxseg or kw["noverlap"] != 0 or kw["window"] != "boxcar":
                        why.append(f"'cor' csd parameters {dict((k, v) for k, v in kw.items() if k in ('nperseg', 'window', 'nfft', 'noverlap'))}")
                if kw["detrend"] != "constant" or kw["scaling"] != "density" or kw["return_onesided"] is not True or kw["axis"] != -1 or \
                        kw["average"] != "mean":
                    why.append("csd defaults overridden: " + str({k: kw[k] for k in ("detrend", "scaling", "return_onesided", "axis", "average")}))
            # O1 pairing + estimator chain, O4 grid
            if np.shape(Sy) != (n_all, n_ref, nl) or np.shape(freq) != (nl,):
                why.append(f"shapes Sy {np.shape(Sy)} freq {np.shape(freq)} (expected ({n_all},{n_ref},{nl}) and ({nl},))")
            elif not why:
                for i in range(n_all):
                    for j in range(n_ref):
                        v = vec_of(Sy, (i, j))
                        base = Vec("CSD", ("all", i), ("ref", j), 0, n=nl)
                        if method == "per":
                            want = base
                        else:
                            n_t = 2 * (nl - 1)
                            tau = -n_t / math.log(0.01)
                            want = Vec("RFFT", Vec("MUL", Vec("IRFFT", base, n=n_t), Vec("WIN", n_t, 0, float(tau), False, n=n_t), n=n_t), n=nl)
                        if v is None or not _same_tol(v, want):
                            why.append(f"Sy[{i},{j},:] is {v}, expected {want}")
                fs = lift(1) / dt
                for k in range(nl):
                    bad.append(differs(freq[k], fs * k / nxseg))
                if nxseg % 2 == 0:
                    bad.append(differs(freq[nl - 1], fs / 2))
                bad.append(differs(freq[0], 0))
        neg = z3.BoolVal(True) if why else z3.Or(*bad)
        tally.decide(e, neg, on_sat=lambda m, why=tuple(why), e=e: cex(cfg, why, {"pov": _mfloat(e, m, pov), "dt": _mfloat(e, m, dt)}),
                     label=f"{method} nxseg={nxseg} {n_all}x{n_ref}")
    return tally.result(ex)


def _same_tol(a, b):
    if isinstance(a, Vec) and isinstance(b, Vec):
        return a.kind == b.kind and a.n == b.n and len(a.args) == len(b.args) and all(_same_tol(x, y) for x, y in zip(a.args, b.args))
    if isinstance(a, float) or isinstance(b, float):
        return abs(float(a) - float(b)) <= 1e-12 * (1 + abs(float(b)))
    return a == b


def _mfloat(e, m, x):
    try:
        return float(concretize(m, x))
    except Exception:  # noqa: BLE001
        return None


def cex(cfg, why, inputs=None):
    inputs = {k: v for k, v in (inputs or {}).items() if v is not None}
    viol, detail, key = replay_sd(cfg, inputs)
    if not viol and inputs:
        viol, detail, key = replay_sd(cfg, {})
    return {"inputs": inputs, "reproduced": viol, "detail": ("; ".join(why) + " | " if why else "") + detail, "key": key}


def replay_sd(cfg, inputs):
    """real SD_est on seeded data against an independent construction from scipy's documented primitives"""
    from scipy import signal
    from pyoma2.functions import fdd
    method, nxseg, n_all, n_ref = cfg["method"], cfg["nxseg"], cfg["n_all"], cfg["n_ref"]
    rng = np.random.RandomState(11)
    N = 40 * nxseg
    Yall, Yref = rng.randn(n_all, N), rng.randn(n_ref, N)
    dt, pov = float(inputs.get("dt", 0.0125)), float(inputs.get("pov", 0.5))
    try:
        freq, Sy = fdd.SD_est(Yall, Yref, dt, nxseg, method=method, pov=pov)
    except Exception as e:  # noqa: BLE001
        return True, f"SD_est raised {type(e).__name__}: {e}", f"SD_est:{method}:raises"
    nl = nxseg // 2 + 1
    if Sy.shape != (n_all, n_ref, nl) or freq.shape != (nl,):
        return True, f"shapes {Sy.shape} {freq.shape}", f"SD_est:{method}:shape"
    if not np.allclose(freq, np.arange(nl) / dt / nxseg, rtol=1e-12, atol=0):
        return True, f"frequency grid {freq[:3]}... is not k*fs/nxseg", f"SD_est:{method}:grid"
    for i in range(n_all):
        for j in range(n_ref):
            if method == "per":
                _, ref = signal.csd(Yall[i], Yref[j], fs=1 / dt, nperseg=nxseg, noverlap=nxseg * pov, window="hann")
            else:
                _, P = signal.csd(Yall[i], Yref[j], nperseg=nxseg // 2, nfft=nxseg, noverlap=0, window="boxcar")
                R = np.fft.irfft(P)
                R = R * signal.windows.exponential(len(R), center=0, tau=-len(R) / np.log(0.01), sym=False)
                ref = np.fft.rfft(R)
            if not np.allclose(Sy[i, j], ref, rtol=1e-9, atol=1e-14):
                return True, (f"Sy[{i},{j}] differs from the documented {method} estimate of (channel {i}, reference {j}) "
                              f"(nxseg={nxseg}, pov={pov}, dt={dt})"), f"SD_est:{method}:pairing"
    return False, "wiring as specified", None


# ------------------------------------------------------------------------------------------ class run() forwarding
class _O:
    pass


def run_classes(cfg, tier):
    import pyoma2.algorithms.fdd as afdd
    import pyoma2.algorithms.plscf as aplscf
    rec = {}

    def fake_sd(Yall, Yref, dt, nxseg=1024, method="cor", pov=0.5):
        rec.update(Yall=Yall, Yref=Yref, dt=dt, nxseg=nxseg, method=method, pov=pov)
        raise _Stop()

    class _Stop(Exception):
        pass

    W = World(per_module={"pyoma2.functions.fdd": {"SD_est": fake_sd}})
    cls = getattr(afdd, cfg["cls"], None) or getattr(aplscf, cfg["cls"])
    tally = Tally(W, [cfg["cls"] + ".run", "FDD.run"])
    ex = Explorer()
    st = {}

    def body():
        rp = _O()
        rp.nxseg, rp.method_SD, rp.pov = 64, "per", fresh("pov")
        rp.ordmax, rp.ordmin, rp.sc, rp.hc = 4, 0, {}, {}
        D = np.zeros((10, 3))
        alg = W.carrier(cls, run_params=rp, data=D, fs=10.0, dt=fresh("dt"), name="a")
        st.update(rp=rp, alg=alg, D=D)
        try:
            alg.run()
        except _Stop:
            pass
        return alg

    for e, (kind, res) in ex.run_all(body):
        rp, alg, D = st["rp"], st["alg"], st["D"]
        why = []
        if kind == "exc":
            why.append(f"raised {res!r}")
        elif not rec:
            why.append("run() does not call SD_est")
        else:
            if rec["nxseg"] != 64 or rec["method"] != "per" or rec["pov"] is not rp.pov or rec["dt"] is not alg.dt:
                why.append(f"SD_est received nxseg={rec['nxseg']} method={rec['method']} pov={rec['pov']} dt={rec['dt']}")
            if not (np.shape(rec["Yall"]) == (3, 10) and np.shares_memory(rec["Yall"], D) and np.shares_memory(rec["Yref"], D)):
                why.append("SD_est did not receive the bound data (channels x samples) for both arguments")
        tally.decide(e, z3.BoolVal(bool(why)), on_sat=lambda m, why=tuple(why): {"inputs": {}, "reproduced": True, "detail": "; ".join(why),
                                                                                 "key": f"{cfg['cls']}.run:SD_est-wiring"}, label=cfg["cls"])
    return tally.result(ex)


def replay(ob, cfg, inputs):
    if ob == "O3c":
        return True, "wiring finding (deterministic)"
    v, d, _ = replay_sd(cfg, inputs)
    return v, d
