"""C17 — frequency variance equals first-order propagation of the Hankel covariance (the two clauses about the factor)."""
import itertools
from fractions import Fraction

import numpy as np
import z3

from symx.arr import NPProxy, SymArray, fresh
from symx.core import SV, Explorer, ShimGap, concretize, differs, lift
from symx.harness import Tally
from symx.twin import World

PROPERTY = "C17"
META = {
    "explanation": "The real ssi.build_hank(calc_unc=True) runs on fully symbolic data.  z3 decides that column k of the covariance factor "
                   "equals (vec(H_k) - vec(H)) / sqrt(nb (nb-1)) where H_k is the moment matrix of block k of the lagged products on the "
                   "same normalisation as H (block sum / block length) and vec is COLUMN-major - the vectorisation for which the "
                   "propagation step's Kronecker selectors (I (x) u^T) vec(X) = X^T u and (v^T (x) I) vec(X) = X v hold (checked as "
                   "identities on symbolic X, u, v for the shapes used).  The delta-method equality of the coded Doehler-Mevel "
                   "sensitivities themselves is outside the claim.",
    "bounds": {"quick": {"l": "1..2", "r": "1..2", "br": 1, "nb": 2, "N": "6 and 7"}, "thorough": {"l": "1..2", "r": "1..2", "br": "1..2", "nb": "2..3"}},
    "stubs": ["none (np.sqrt of the concrete nb(nb-1) is NumPy's)"],
    "assumptions": ["the sensitivity formulas of SSI_fast / SSI_poles (implicit differentiation of SVD, QR, inverse and eigen-decomposition) "
                    "cannot be encoded within reach: that clause is not claimed"],
}


def jobs(tier):
    out = []
    q = tier == "quick"
    for l, r in ((1, 1), (2, 1), (2, 2)):
        for br in ((1,) if q else (1, 2)):
            for nb in ((2,) if q else (2, 3)):
                for extra in (0, 1):
                    out.append({"ob": "O1", "cfg": {"l": l, "r": r, "br": br, "nb": nb, "Ndat": 2 * br + 1 + nb * 3 + extra}})
    for shp in ((2, 2), (4, 2), (2, 4), (3, 3)):
        out.append({"ob": "O2", "cfg": {"rows": shp[0], "cols": shp[1]}})
    # ordmax <= br * l (the shift-invariance block must have at least ordmax rows)
    for l, r, br, om in (((1, 1, 2, 2), (2, 1, 1, 2), (2, 2, 1, 2)) if q else ((1, 1, 2, 2), (2, 1, 1, 2), (2, 2, 1, 2), (2, 2, 2, 3), (3, 2, 1, 3))):
        out.append({"ob": "O3", "cfg": {"l": l, "r": r, "br": br, "ordmax": om}})
    return out


def run(job, tier):
    return {"O1": run_factor, "O2": run_vec, "O3": run_triplets}[job["ob"]](job["cfg"], tier)


class _LA:
    """np.linalg for the propagation step: svd returns prescribed symbolic factors; qr / inv results are opaque fresh arrays
    (their values do not enter the obligation)"""

    def __init__(self):
        self.f = None
        self.n = 0

    def svd(self, H, full_matrices=True, compute_uv=True, hermitian=False):
        if hermitian or not compute_uv or not full_matrices or self.f is not None:
            raise ShimGap("svd stub: call not modelled")
        R, C = np.shape(H)
        self.f = (fresh("U", (R, R)), fresh("s", (min(R, C),), nn=True), fresh("Vt", (C, C)))
        return self.f

    def _opaque(self, shape, tag):
        self.n += 1
        return fresh(f"{tag}{self.n}", shape) if all(shape) else SymArray(np.empty(shape, dtype=object))

    def qr(self, M, mode="reduced"):
        R, C = np.shape(M)
        k = min(R, C)
        return self._opaque((R, k), "q"), self._opaque((k, C), "r")

    def inv(self, X):
        return self._opaque(np.shape(X), "inv")


def run_triplets(cfg, tier):
    """the singular triplets the propagation step differentiates are triplets of H: the vectors handed to the two Kronecker
    selectors of Eq. 33 at order index i are column i of U and row i of V^T of the SVD that produced the observability matrix"""
    from pyoma2.functions import ssi
    l, r, br, om = cfg["l"], cfg["r"], cfg["br"], cfg["ordmax"]
    la = _LA()
    calls = []

    def kron(a, b):
        calls.append((a, b))
        A, B = np.atleast_2d(np.asarray(a, dtype=object)), np.atleast_2d(np.asarray(b, dtype=object))
        out = np.empty((A.shape[0] * B.shape[0], A.shape[1] * B.shape[1]), dtype=object)
        for i in range(A.shape[0]):
            for j in range(A.shape[1]):
                for k in range(B.shape[0]):
                    for m in range(B.shape[1]):
                        out[i * B.shape[0] + k, j * B.shape[1] + m] = lift(A[i, j]) * lift(B[k, m])
        return SymArray(out)

    W = World(overrides={"np": NPProxy(linalg=la, kron=kron)})
    tm = W.module(ssi)
    tally = Tally(W, ["SSI_fast"])
    ex = Explorer(timeout_ms=60000)
    rows, cols = (br + 1) * l, (br + 1) * r
    nbT = 1

    def body():
        la.f, la.n = None, 0
        del calls[:]
        H = fresh("H", (rows, cols))
        T = fresh("T", (rows * cols, nbT))
        return tm.SSI_fast(H, br, om, step=1, calc_unc=True, T=T, nb=nbT)

    for e, (kind, res) in ex.run_all(body):
        if kind == "exc":
            tally.decide(e, z3.BoolVal(True), on_sat=lambda m: cext(cfg, f"raised {type(res).__name__}: {res}"), with_side=False)
            continue
        U, S, Vt = la.f
        why, bad = [], []
        if len(calls) != 2 * om:
            why.append(f"{len(calls)} Kronecker selectors for {om} orders")
        else:
            for i in range(om):
                u = np.asarray(calls[2 * i][1], dtype=object).reshape(-1)
                v = np.asarray(calls[2 * i + 1][0], dtype=object).reshape(-1)
                if u.shape != (rows,) or v.shape != (cols,):
                    why.append(f"selector vector shapes {u.shape}, {v.shape}")
                    break
                bad += [differs(u[a], U[a, i]) for a in range(rows)]
                bad += [differs(v[b], Vt[i, b]) for b in range(cols)]
        neg = z3.BoolVal(True) if why else z3.Or(*bad)
        tally.decide(e, neg, on_sat=lambda m, why=tuple(why): cext(cfg, "; ".join(why) or None), with_side=False,
                     label=f"singular triplets l={l} r={r} ordmax={om}")
    return tally.result(ex)


def cext(cfg, note):
    v, d, key = replay_fd(cfg)
    return {"inputs": {}, "reproduced": v, "detail": (note + " | " if note else "") + d, "key": key}


def replay_fd(cfg):
    """real SSI_fast + SSI_poles: a rank-one Hankel covariance vec(D) vec(D)^T (column-major vec) must propagate to the squared
    directional derivative of each frequency along D (central finite difference)"""
    from pyoma2.functions import ssi
    l, r, br, om = max(cfg["l"], 2), cfg["r"], 3, 4
    rng = np.random.RandomState(5)
    nd, dt = 6000, 0.01
    t = np.arange(nd) * dt
    from scipy import signal
    Y = np.zeros((l, nd))
    for ff, zz in ((5.0, 0.02), (12.0, 0.03)):
        w = 2 * np.pi * ff
        sd = signal.cont2discrete(([1.0], [1.0, 2 * zz * w, w * w]), dt)
        Y += np.outer(rng.randn(l), signal.lfilter(sd[0].flatten(), sd[1], rng.randn(nd)))
    Y += 0.01 * Y.std() * rng.randn(l, nd)
    H, _ = ssi.build_hank(Y, Y[:r], br, "cov_mm")

    def fn_of(Hm):
        Obs, A, C, *_ = ssi.SSI_fast(Hm, br, om)
        return ssi.SSI_poles(Obs, A, C, om, dt)[0][:, om]

    D = rng.randn(*H.shape) * np.abs(H).mean()
    eps = 1e-6
    fd = (fn_of(H + eps * D) - fn_of(H - eps * D)) / (2 * eps)
    try:
        Obs, A, C, Q1, Q2, Q3, Q4 = ssi.SSI_fast(H, br, om, calc_unc=True, T=D.reshape(-1, 1, order="F"), nb=1)
        var = ssi.SSI_poles(Obs, A, C, om, dt, calc_unc=True, Q1=Q1, Q2=Q2, Q3=Q3, Q4=Q4)[4][:, om]
    except Exception as e:  # noqa: BLE001
        return True, f"propagation raised {type(e).__name__}: {e}", "SSI_fast:unc:raises"
    ok = np.allclose(var, fd ** 2, rtol=1e-3, atol=1e-12)
    return (not ok), (f"propagated frequency variance {np.round(var, 6).tolist()} vs squared directional derivative "
                      f"{np.round(fd ** 2, 6).tolist()} (l={l}, r={r}, br={br}, order {om})"), "SSI_fast:unc:singular-vectors"


def run_factor(cfg, tier):
    from pyoma2.functions import ssi
    W = World()
    tm = W.module(ssi)
    tally = Tally(W, ["build_hank"])
    ex = Explorer(timeout_ms=60000)
    l, r, br, nb, nd = cfg["l"], cfg["r"], cfg["br"], cfg["nb"], cfg["Ndat"]
    st = {}

    def body():
        Y, Yref = fresh("Y", (l, nd)), fresh("R", (r, nd))
        st.update(Y=Y, Yref=Yref)
        return tm.build_hank(Y=Y, Yref=Yref, br=br, method="cov_mm", calc_unc=True, nb=nb)

    for e, (kind, res) in ex.run_all(body):
        Y, Yref = st["Y"], st["Yref"]
        if kind == "exc":
            tally.decide(e, z3.BoolVal(True), on_sat=lambda m: cexf(cfg, f"raised {type(res).__name__}: {res}"))
            continue
        H, T = res
        p, q = br, br + 1
        N = nd - p - q
        Nb = N // nb
        rows, cols = (br + 1) * l, (br + 1) * r
        why, bad, bad2 = [], [], []
        c2 = Fraction(float(1 / N**0.5)) ** 2
        if T is None or np.shape(T) != (rows * cols, nb):
            why.append(f"factor shape {None if T is None else np.shape(T)} (expected ({rows * cols}, {nb}))")
        else:
            # raw lagged products: entry (i,a;j,b), sample t  ->  Y[a, q+1+i+t] * Yref[b, q-j+t],  t = 0..N-2
            def blocksum(i, a, j, b, k):
                ts = [t for t in range(k * Nb, (k + 1) * Nb) if t < N - 1]
                return sum((Y[a, q + 1 + i + t] * Yref[b, q - j + t] for t in ts), lift(0))
            s2 = np.sqrt(nb * (nb - 1))
            for k in range(nb):
                for cj in range(cols):          # column-major: column index varies slowest
                    for ri in range(rows):
                        i, a = divmod(ri, l)
                        j, b = divmod(cj, r)
                        bs = blocksum(i, a, j, b, k)
                        # "the same normalisation as H": H carries the double c = 1/sqrt(N) twice; both the exact 1/Nb and
                        # c^2 N / Nb are accepted (they differ by one rounding)
                        bad.append(differs(T[cj * rows + ri, k], (bs / Nb - H[ri, cj]) / s2))
                        bad2.append(differs(T[cj * rows + ri, k], (bs * c2 * N / Nb - H[ri, cj]) / s2))
        neg = z3.BoolVal(True) if why else z3.And(z3.Or(*bad), z3.Or(*bad2))
        tally.decide(e, neg, on_sat=lambda m, why=tuple(why): cexf(cfg, "; ".join(why) or None), label=f"factor l={l} r={r} br={br} nb={nb} Ndat={nd}")
    return tally.result(ex)


def cexf(cfg, note):
    v, d, key = replay_factor(cfg)
    return {"inputs": {}, "reproduced": v, "detail": (note + " | " if note else "") + d, "key": key}


def replay_factor(cfg):
    """real build_hank(calc_unc=True) on seeded data against the definition; classifies scaling vs vectorisation"""
    from pyoma2.functions import ssi
    l, r, br, nb = cfg["l"], cfg["r"], cfg["br"], cfg["nb"]
    rng = np.random.RandomState(23)
    nd = 2 * br + 1 + nb * 40
    Y, Yref = rng.randn(l, nd) + 1.0, rng.randn(r, nd) - 0.5
    try:
        H, T = ssi.build_hank(Y, Yref, br, "cov_mm", calc_unc=True, nb=nb)
    except Exception as e:  # noqa: BLE001
        return True, f"build_hank(calc_unc=True) raised {type(e).__name__}: {e}", "build_hank:unc:raises"
    p, q = br, br + 1
    N = nd - p - q
    Nb = N // nb
    rows, cols = (br + 1) * l, (br + 1) * r
    Hk = np.zeros((nb, rows, cols))
    for k in range(nb):
        for ri in range(rows):
            for cj in range(cols):
                i, a = divmod(ri, l)
                j, b = divmod(cj, r)
                ts = [t for t in range(k * Nb, (k + 1) * Nb) if t < N - 1]
                Hk[k, ri, cj] = sum(Y[a, q + 1 + i + t] * Yref[b, q - j + t] for t in ts) / Nb
    s2 = np.sqrt(nb * (nb - 1))
    want_F = np.stack([(Hk[k] - H).flatten(order="F") / s2 for k in range(nb)], axis=1)
    want_C = np.stack([(Hk[k] - H).flatten(order="C") / s2 for k in range(nb)], axis=1)
    if T.shape != want_F.shape:
        return True, f"factor shape {T.shape}", "build_hank:unc:shape"
    if np.allclose(T, want_F, rtol=1e-9, atol=1e-12):
        return False, "factor as specified", None
    if np.allclose(T, want_C, rtol=1e-9, atol=1e-12) and rows * cols > 1 and not np.allclose(want_C, want_F):
        return True, "factor columns are row-major vectorisations of the deviations (the propagation step's Kronecker selectors need column-major)", \
            "build_hank:unc:row-major-vec"
    ratio = np.linalg.norm(T + np.stack([H.flatten(order="C")] * nb, axis=1) / s2) / np.linalg.norm(T)
    return True, (f"factor is not (vec(H_k) - vec(H))/sqrt(nb(nb-1)) with H_k the block moment matrix on H's normalisation: every column is "
                  f"within {ratio:.3g} (relative) of -vec(H)/sqrt(nb(nb-1)), i.e. the block estimates are scaled down by ~N"), "build_hank:unc:block-scaling"


def run_vec(cfg, tier):
    """the identities the propagation step relies on, for column-major vec (they fail for row-major on non-square shapes)"""
    R, C = cfg["rows"], cfg["cols"]
    tally = Tally(None, None)
    ex = Explorer()

    def body():
        return None

    for e, _ in ex.run_all(body):
        X = fresh("X", (R, C))
        u, v = fresh("u", (R,)), fresh("v", (C,))
        vecF = [X[i, j] for j in range(C) for i in range(R)]
        # (I_C (x) u^T) vec(X) = X^T u
        K1 = np.kron(np.eye(C), np.asarray(u, dtype=object).reshape(1, -1))
        lhs1 = [sum((lift(K1[a, k]) * vecF[k] for k in range(R * C)), lift(0)) for a in range(C)]
        rhs1 = [sum((X[i, a] * u[i] for i in range(R)), lift(0)) for a in range(C)]
        # (v^T (x) I_R) vec(X) = X v
        K2 = np.kron(np.asarray(v, dtype=object).reshape(1, -1), np.eye(R))
        lhs2 = [sum((lift(K2[a, k]) * vecF[k] for k in range(R * C)), lift(0)) for a in range(R)]
        rhs2 = [sum((X[a, j] * v[j] for j in range(C)), lift(0)) for a in range(R)]
        bad = [differs(x, y) for x, y in zip(lhs1 + lhs2, rhs1 + rhs2)]
        tally.decide(e, z3.Or(*bad), on_sat=lambda m: {"inputs": {}, "reproduced": False, "detail": "Kronecker identity fails", "key": "vec"},
                     label=f"Kronecker/vec identities {R}x{C}")
    return tally.result(ex)


def replay(ob, cfg, inputs):
    if ob == "O2":
        return False, "identity"
    if ob == "O3":
        v, d, _ = replay_fd(cfg)
        return v, d
    v, d, _ = replay_factor(cfg)
    return v, d
