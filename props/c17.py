"""C17 — frequency variance equals first-order propagation of the Hankel covariance (the two clauses about the factor)."""
import itertools
from fractions import Fraction

import numpy as np
import z3

from symx.arr import NPProxy, SymArray, fresh
from symx.core import SV, Explorer, ShimGap, concretize, differs, lift
from symx.harness import Tally
from symx.twin import World

PROPERTY = "C17"
META = {
    "explanation": "The real ssi.build_hank(calc_unc=True) runs on fully symbolic data.  z3 decides that column k of the covariance factor "
                   "equals (vec(H_k) - vec(H)) / sqrt(nb (nb-1)) where H_k is the moment matrix of block k of the lagged products on the "
                   "same normalisation as H (block sum / block length) and vec is COLUMN-major - the vectorisation for which the "
                   "propagation step's Kronecker selectors (I (x) u^T) vec(X) = X^T u and (v^T (x) I) vec(X) = X v hold (checked as "
                   "identities on symbolic X, u, v for the shapes used).  O3: SSI_fast(calc_unc=True) over symbolic SVD factors hands the "
                   "true singular triplets (U[:, i], row i of V^T) to its Kronecker selectors.  O4: SSI_poles(calc_unc=True), given Q1..Q3 "
                   "built from one symbolic perturbation dO of the observability matrix, reports (grad f . dlam)^2 with dlam the first-order "
                   "eigenvalue perturbation of the shift-invariance solution and grad f the gradient of |ln(lam)/dt|/(2 pi); eigenpairs, ln, "
                   "|lam_c| and the inverted Gram matrix are symbols.  The singular-vector sensitivity of SSI_fast (Eqs 28-34) is outside.",
    "bounds": {"quick": {"l": "1..2", "r": "1..2", "br": 1, "nb": 2, "N": "6 and 7", "O3": "orders <= 2, H up to 4x4", "O4": "1 channel, 3 block rows of Obs, orders 1..2"},
               "thorough": {"l": "1..2", "r": "1..2", "br": "1..2", "nb": "2..3", "O3": "orders <= 3", "O4": "1..2 channels, br 1..3, orders 1..2"}},
    "stubs": ["O1: none (np.sqrt of the concrete nb(nb-1) is NumPy's)", "O3: np.linalg.svd returns fresh symbolic factors, qr/inv opaque, np.kron recorded",
              "O4: ssi.ac2mp returns symbolic eigenvalues (discrete, continuous with |lam_c| a symbol) and unit-first-component eigenvectors; "
              "np.linalg.inv returns a fixed rational matrix; Obs is a fixed generic integer matrix (it enters only through bilinear forms with dO)"],
    "assumptions": ["the singular-vector sensitivity coded in SSI_fast (Eqs 28-34: implicit derivative of the SVD) cannot be encoded within "
                    "reach: not claimed", "O4 uses A r = lam r and the standard first-order eigenvalue perturbation l^H dA r / (l^H r) as the "
                    "definition of dlam; composition of O1..O4 into the end-to-end delta-method statement is a paper step"],
}


def jobs(tier):
    out = []
    q = tier == "quick"
    for l, r in ((1, 1), (2, 1), (2, 2)):
        for br in ((1,) if q else (1, 2)):
            for nb in ((2,) if q else (2, 3)):
                for extra in (0, 1):
                    out.append({"ob": "O1", "cfg": {"l": l, "r": r, "br": br, "nb": nb, "Ndat": 2 * br + 1 + nb * 3 + extra}})
    for shp in ((2, 2), (4, 2), (2, 4), (3, 3)):
        out.append({"ob": "O2", "cfg": {"rows": shp[0], "cols": shp[1]}})
    # ordmax <= br * l (the shift-invariance block must have at least ordmax rows)
    for l, r, br, om in (((1, 1, 2, 2), (2, 1, 1, 2), (2, 2, 1, 2)) if q else ((1, 1, 2, 2), (2, 1, 1, 2), (2, 2, 1, 2), (2, 2, 2, 3), (3, 2, 1, 3))):
        out.append({"ob": "O3", "cfg": {"l": l, "r": r, "br": br, "ordmax": om}})
    for nch, br, om in (((1, 2, 2),) if q else ((1, 2, 2), (2, 1, 2), (1, 3, 2))):
        out.append({"ob": "O4", "cfg": {"nch": nch, "br": br, "ordmax": om}})
    return out


def run(job, tier):
    return {"O1": run_factor, "O2": run_vec, "O3": run_triplets, "O4": run_assembly}[job["ob"]](job["cfg"], tier)


class _LA:
    """np.linalg for the propagation step: svd returns prescribed symbolic factors; qr / inv results are opaque fresh arrays
    (their values do not enter the obligation)"""

    def __init__(self):
        self.f = None
        self.n = 0

    def svd(self, H, full_matrices=True, compute_uv=True, hermitian=False):
        if hermitian or not compute_uv or not full_matrices or self.f is not None:
            raise ShimGap("svd stub: call not modelled")
        R, C = np.shape(H)
        self.f = (fresh("U", (R, R)), fresh("s", (min(R, C),), nn=True), fresh("Vt", (C, C)))
        return self.f

    def _opaque(self, shape, tag):
        self.n += 1
        return fresh(f"{tag}{self.n}", shape) if all(shape) else SymArray(np.empty(shape, dtype=object))

    def qr(self, M, mode="reduced"):
        R, C = np.shape(M)
        k = min(R, C)
        return self._opaque((R, k), "q"), self._opaque((k, C), "r")

    def inv(self, X):
        return self._opaque(np.shape(X), "inv")


def run_triplets(cfg, tier):
    """the singular triplets the propagation step differentiates are triplets of H: the vectors handed to the two Kronecker
    selectors of Eq. 33 at order index i are column i of U and row i of V^T of the SVD that produced the observability matrix"""
    from pyoma2.functions import ssi
    l, r, br, om = cfg["l"], cfg["r"], cfg["br"], cfg["ordmax"]
    la = _LA()
    calls = []

    def kron(a, b):
        calls.append((a, b))
        A, B = np.atleast_2d(np.asarray(a, dtype=object)), np.atleast_2d(np.asarray(b, dtype=object))
        out = np.empty((A.shape[0] * B.shape[0], A.shape[1] * B.shape[1]), dtype=object)
        for i in range(A.shape[0]):
            for j in range(A.shape[1]):
                for k in range(B.shape[0]):
                    for m in range(B.shape[1]):
                        out[i * B.shape[0] + k, j * B.shape[1] + m] = lift(A[i, j]) * lift(B[k, m])
        return SymArray(out)

    W = World(overrides={"np": NPProxy(linalg=la, kron=kron)})
    tm = W.module(ssi)
    tally = Tally(W, ["SSI_fast"])
    ex = Explorer(timeout_ms=60000)
    rows, cols = (br + 1) * l, (br + 1) * r
    nbT = 1

    def body():
        la.f, la.n = None, 0
        del calls[:]
        H = fresh("H", (rows, cols))
        T = fresh("T", (rows * cols, nbT))
        return tm.SSI_fast(H, br, om, step=1, calc_unc=True, T=T, nb=nbT)

    for e, (kind, res) in ex.run_all(body):
        if kind == "exc":
            tally.decide(e, z3.BoolVal(True), on_sat=lambda m: cext(cfg, f"raised {type(res).__name__}: {res}"), with_side=False)
            continue
        U, S, Vt = la.f
        why, bad = [], []
        if len(calls) != 2 * om:
            why.append(f"{len(calls)} Kronecker selectors for {om} orders")
        else:
            for i in range(om):
                u = np.asarray(calls[2 * i][1], dtype=object).reshape(-1)
                v = np.asarray(calls[2 * i + 1][0], dtype=object).reshape(-1)
                if u.shape != (rows,) or v.shape != (cols,):
                    why.append(f"selector vector shapes {u.shape}, {v.shape}")
                    break
                bad += [differs(u[a], U[a, i]) for a in range(rows)]
                bad += [differs(v[b], Vt[i, b]) for b in range(cols)]
        neg = z3.BoolVal(True) if why else z3.Or(*bad)
        tally.decide(e, neg, on_sat=lambda m, why=tuple(why): cext(cfg, "; ".join(why) or None), with_side=False,
                     label=f"singular triplets l={l} r={r} ordmax={om}")
    return tally.result(ex)


def run_assembly(cfg, tier):
    """SSI_poles(calc_unc=True) given Q1..Q3 built (as SSI_fast builds them) from ONE perturbation dO of the observability
    matrix: the reported frequency variance at (pole j, order n) equals (grad f . (Re dlam, Im dlam))^2 where
      dlam = l^H G^-1 [ dOp^T Om r + Op^T dOm r - lam (dOp^T Op + Op^T dOp) r ] / (l^H r)      (G = Op^T Op)
    is the first-order perturbation of the eigenvalue lam of the shift-invariance solution A = Op^+ Om (A r = lam r used), and
      grad f = [Re lc, Im lc] [[Re lam, Im lam], [-Im lam, Re lam]] / (2 pi dt |lam|^2 |lc|),   lc = ln(lam)/dt
    is the gradient of f = |ln(lam)/dt| / (2 pi).  Eigenpairs, ln and G^-1 are symbolic (stubs); what is decided is the
    assembly: selection/permutation matrices, Kronecker products, Lemma 5 matrices, which entry of the 2x2 covariance is
    reported."""
    from pyoma2.functions import ssi
    import symx.core as core
    from symx.core import SC, toc
    core.SOM_BLOWUP = 10 ** 6       # the order-2 identities need the full expansion; the job runs in its own process
    nch, br, om = cfg["nch"], cfg["br"], cfg["ordmax"]
    rows = (br + 1) * nch
    st = {}

    class LAinv:
        def __init__(self):
            self.calls = []

        def inv(self, X):
            X = np.asarray(X, dtype=object)
            n = X.shape[0]
            # the value of G^-1 is irrelevant to the assembly: a fixed non-symmetric rational matrix keeps the identity small
            OO = SymArray(np.array([[lift(Fraction(2 + 3 * i + j, 1 + i + 2 * j)) for j in range(n)] for i in range(n)], dtype=object))
            self.calls.append((X, OO))
            return OO

        def __getattr__(self, k):
            raise ShimGap(f"np.linalg.{k} not modelled")

    la = LAinv()

    def ac2mp_stub(A, C, dt, calc_unc=False):
        n = np.shape(A)[0]
        # eigenvectors normalised to a unit first component (any eigenvector basis can be scaled so; the code divides by l^H r)
        def unit_first(M):
            M = np.asarray(M, dtype=object).copy()
            for j in range(n):
                M[0, j] = toc(1.0)
            return SymArray(M)
        class _ModSC(SC):
            """complex value whose modulus is a given positive symbol (kept as a symbol so that no square root enters the identity;
            code and specification use it alike, so the relation mod^2 = re^2 + im^2 is not needed)"""

            def __abs__(self):
                return self._mod

            def copy(self):
                x = _ModSC(self.re, self.im, self.nan, d=self.d, dp=self.dp)
                x._mod = self._mod
                return x

        def with_mod(arr, tag):
            out = np.empty(n, dtype=object)
            for j in range(n):
                c = toc(arr[j])
                x = _ModSC(c.re, c.im, c.nan, d=c.d, dp=c.dp)
                x._mod = fresh(f"{tag}{n}_{j}", nn=True)
                Explorer.cur.assume(x._mod.v > 0)
                out[j] = x
            return SymArray(out)
        eg = {"lam_d": fresh(f"ld{n}", (n,), complex_=True), "lam_c": with_mod(fresh(f"lc{n}", (n,), complex_=True), "modlc"),
              "l": unit_first(fresh(f"el{n}", (n, n), complex_=True)), "r": unit_first(fresh(f"er{n}", (n, n), complex_=True))}
        st["eig"][n] = eg
        fn, xi = fresh(f"fn{n}", (n,)), fresh(f"xi{n}", (n,))
        phi = fresh(f"phi{n}", (n, nch), complex_=True)
        return fn, xi, phi, eg["lam_c"], eg["lam_d"], eg["l"], eg["r"]

    W = World(overrides={"np": NPProxy(linalg=la)}, per_module={"pyoma2.functions.ssi": {"ac2mp": ac2mp_stub}})
    tm = W.module(ssi)
    tally = Tally(W, ["SSI_poles"])
    ex = Explorer(timeout_ms=120000)

    def body():
        del la.calls[:]
        st["eig"] = {}
        # Obs enters only through fixed bilinear forms with dO: a fixed generic integer matrix keeps the identity small
        Obs = SymArray(np.array([[lift(float(((3 * i + 5 * j) % 7) - 2 + (1 if i == j else 0))) for j in range(om)] for i in range(rows)], dtype=object))
        dO = fresh("dO", (rows, om))
        dt = fresh("dt", nn=True)
        Explorer.cur.assume(dt.v > 0)
        Op, Om, dOp, dOm = Obs[:rows - nch, :], Obs[nch:, :], dO[:rows - nch, :], dO[nch:, :]

        def vecF(M):
            return SymArray(np.array([[M[i, j]] for j in range(om) for i in range(om)], dtype=object))
        Q1, Q2, Q3 = vecF(Op.T @ dOp), vecF(Om.T @ dOp), vecF(Op.T @ dOm)
        Q4 = SymArray(np.array([[dO[i, j]] for j in range(om) for i in range(nch)], dtype=object))
        AA = [fresh(f"A{n}", (n, n)) if n else SymArray(np.empty((0, 0), dtype=object)) for n in range(om + 1)]
        CC = [SymArray(np.empty((nch, n), dtype=object)) if n == 0 else fresh(f"C{n}", (nch, n)) for n in range(om + 1)]
        st.update(Obs=Obs, dO=dO, dt=dt)
        return tm.SSI_poles(Obs, AA, CC, om, dt, step=1, calc_unc=True, Q1=Q1, Q2=Q2, Q3=Q3, Q4=Q4)

    for e, (kind, res) in ex.run_all(body):
        if kind == "exc":
            tally.decide(e, z3.BoolVal(True), on_sat=lambda m: cext(cfg, f"raised {type(res).__name__}: {res}", "SSI_poles:unc:assembly"), with_side=False)
            continue
        Obs, dO, dt = st["Obs"], st["dO"], st["dt"]
        Fn_cov = res[4]
        why, bad, per_pole = [], [], []
        if Fn_cov is None or np.shape(Fn_cov) != (om, om + 1):
            why.append(f"Fn_cov shape {None if Fn_cov is None else np.shape(Fn_cov)}")
        elif len(la.calls) != om:
            why.append(f"{len(la.calls)} matrix inversions for {om} orders")
        else:
            inv_two_pi = lift(1 / (2 * np.pi))      # the code's double constant (1/fl(2 pi) is a different rational)
            for n in range(1, om + 1):
                X, OO = la.calls[n - 1]
                Op, Om, dOp, dOm = Obs[:rows - nch, :n], Obs[nch:, :n], dO[:rows - nch, :n], dO[nch:, :n]
                G = Op.T @ Op
                bad += [differs(X[i, j], G[i, j]) for i in range(n) for j in range(n)]
                eg = st["eig"][n]
                M1 = dOp.T @ Om
                M2 = Op.T @ dOm
                M3 = dOp.T @ Op + Op.T @ dOp
                for j in range(n):
                    lam, lc = toc(eg["lam_d"][j]), eg["lam_c"][j]
                    r = [toc(eg["r"][i, j]) for i in range(n)]
                    lH = [toc(eg["l"][i, j]).conjugate() for i in range(n)]
                    v = [sum((toc(M1[i, k]) * r[k] + toc(M2[i, k]) * r[k] - lam * toc(M3[i, k]) * r[k] for k in range(n)), toc(0)) for i in range(n)]
                    w = [sum((toc(OO[i, k]) * v[k] for k in range(n)), toc(0)) for i in range(n)]
                    dlam = sum((lH[i] * w[i] for i in range(n)), toc(0)) / sum((lH[i] * r[i] for i in range(n)), toc(0))
                    a, b = lc.real, lc.imag
                    g0 = a * lam.real - b * lam.imag
                    g1 = a * lam.imag + b * lam.real
                    den = dt * lam.abs2() * abs(lc)
                    df = (g0 * dlam.real + g1 * dlam.imag) * inv_two_pi / den
                    per_pole.append((n, j, lift(Fn_cov[j, n]), df * df))
        neg = z3.BoolVal(True) if why else z3.Or(*bad)
        tally.decide(e, neg, on_sat=lambda m, why=tuple(why): cext(cfg, "; ".join(why) or None, "SSI_poles:unc:assembly"), with_side=not why,
                     label=f"inverted matrix == Op^T Op, nch={nch} br={br} ordmax={om}")
        for n, j, got, want in per_pole:
            if tally.stop:
                break
            # a polynomial identity that fails fails at almost every point: substituting a few rational points into the two
            # (unexpanded) terms settles `sat` in seconds, where expanding the non-zero difference and the non-linear engine
            # can take very long; `unsat` is still the solver's verdict on the expanded identity
            if _differ_at_a_point(e, got, want):
                tally.obligations += 1
                tally.reach = True
                c = cext(cfg, f"order {n} pole {j}: reported variance differs from (grad f . dlam)^2", "SSI_poles:unc:assembly")
                tally.cex.append(c)
                if c["reproduced"]:
                    tally.stop = True
                    e.halt = True
                break
            tally.decide(e, differs(got, want), on_sat=lambda m: cext(cfg, None, "SSI_poles:unc:assembly"), with_side=True,
                         label=f"frequency variance == (grad f . dlam)^2, order {n} pole {j}, nch={nch} br={br}")
    return tally.result(ex)


def _differ_at_a_point(e, a, b, tries=6):
    """True if the two real terms take different values at some rational point satisfying path and side conditions"""
    import random
    from symx.harness import _free_consts
    conds = list(e.pc) + list(e.side)
    consts = sorted(_free_consts([a.z, b.z] + conds), key=str)
    rnd = random.Random(7)
    for _ in range(tries):
        subs = [(c, z3.Q(rnd.randint(1, 9) * rnd.choice((1, -1)), rnd.randint(2, 7))) for c in consts]
        if not all(z3.is_true(z3.simplify(z3.substitute(c, *subs))) for c in conds):
            continue
        va, vb = z3.simplify(z3.substitute(a.z, *subs)), z3.simplify(z3.substitute(b.z, *subs))
        if z3.is_rational_value(va) and z3.is_rational_value(vb) and not z3.eq(va, vb):
            return True
    return False


def cext(cfg, note, key=None):
    v, d, k0 = replay_fd(cfg)
    return {"inputs": {}, "reproduced": v, "detail": (note + " | " if note else "") + d, "key": key or k0}


def replay_fd(cfg):
    """real SSI_fast + SSI_poles: a rank-one Hankel covariance vec(D) vec(D)^T (column-major vec) must propagate to the squared
    directional derivative of each frequency along D (central finite difference)"""
    from pyoma2.functions import ssi
    l, r, br, om = max(cfg.get("l", cfg.get("nch", 2)), 2), cfg.get("r", 1), 3, 4
    rng = np.random.RandomState(5)
    nd, dt = 6000, 0.01
    t = np.arange(nd) * dt
    from scipy import signal
    Y = np.zeros((l, nd))
    for ff, zz in ((5.0, 0.02), (12.0, 0.03)):
        w = 2 * np.pi * ff
        sd = signal.cont2discrete(([1.0], [1.0, 2 * zz * w, w * w]), dt)
        Y += np.outer(rng.randn(l), signal.lfilter(sd[0].flatten(), sd[1], rng.randn(nd)))
    Y += 0.01 * Y.std() * rng.randn(l, nd)
    H0, _ = ssi.build_hank(Y, Y[:r], br, "cov_mm")

    def fn_of(Hm):
        Obs, A, C, *_ = ssi.SSI_fast(Hm, br, om)
        return ssi.SSI_poles(Obs, A, C, om, dt)[0][:, om]

    D0 = rng.randn(*H0.shape) * np.abs(H0).mean()
    eps = 1e-6
    # the same record in two amplitude units: the Hankel matrix (and the direction) scale with the square of the unit
    for unit in (1.0, 1e-5):
        H, D = H0 * unit ** 2, D0 * unit ** 2
        fd = (fn_of(H + eps * D) - fn_of(H - eps * D)) / (2 * eps)
        try:
            Obs, A, C, Q1, Q2, Q3, Q4 = ssi.SSI_fast(H, br, om, calc_unc=True, T=D.reshape(-1, 1, order="F"), nb=1)
            var = ssi.SSI_poles(Obs, A, C, om, dt, calc_unc=True, Q1=Q1, Q2=Q2, Q3=Q3, Q4=Q4)[4][:, om]
        except Exception as e:  # noqa: BLE001
            return True, f"propagation raised {type(e).__name__}: {e}", "SSI_fast:unc:raises"
        if not np.allclose(var, fd ** 2, rtol=1e-3, atol=1e-12):
            return True, (f"propagated frequency variance {np.round(var, 6).tolist()} vs squared directional derivative "
                          f"{np.round(fd ** 2, 6).tolist()} (l={l}, r={r}, br={br}, order {om}, amplitude unit {unit:g})"), "SSI_fast:unc:singular-vectors"
    return False, "propagated variance == squared directional derivative (two amplitude units)", "SSI_fast:unc:singular-vectors"


def run_factor(cfg, tier):
    from pyoma2.functions import ssi
    W = World()
    tm = W.module(ssi)
    tally = Tally(W, ["build_hank"])
    ex = Explorer(timeout_ms=60000)
    l, r, br, nb, nd = cfg["l"], cfg["r"], cfg["br"], cfg["nb"], cfg["Ndat"]
    st = {}

    def body():
        Y, Yref = fresh("Y", (l, nd)), fresh("R", (r, nd))
        st.update(Y=Y, Yref=Yref)
        return tm.build_hank(Y=Y, Yref=Yref, br=br, method="cov_mm", calc_unc=True, nb=nb)

    for e, (kind, res) in ex.run_all(body):
        Y, Yref = st["Y"], st["Yref"]
        if kind == "exc":
            tally.decide(e, z3.BoolVal(True), on_sat=lambda m: cexf(cfg, f"raised {type(res).__name__}: {res}"))
            continue
        H, T = res
        p, q = br, br + 1
        N = nd - p - q
        Nb = N // nb
        rows, cols = (br + 1) * l, (br + 1) * r
        why, bad, bad2 = [], [], []
        c2 = Fraction(float(1 / N**0.5)) ** 2
        if T is None or np.shape(T) != (rows * cols, nb):
            why.append(f"factor shape {None if T is None else np.shape(T)} (expected ({rows * cols}, {nb}))")
        else:
            # raw lagged products: entry (i,a;j,b), sample t  ->  Y[a, q+1+i+t] * Yref[b, q-j+t],  t = 0..N-2
            def blocksum(i, a, j, b, k):
                ts = [t for t in range(k * Nb, (k + 1) * Nb) if t < N - 1]
                return sum((Y[a, q + 1 + i + t] * Yref[b, q - j + t] for t in ts), lift(0))
            s2 = np.sqrt(nb * (nb - 1))
            for k in range(nb):
                for cj in range(cols):          # column-major: column index varies slowest
                    for ri in range(rows):
                        i, a = divmod(ri, l)
                        j, b = divmod(cj, r)
                        bs = blocksum(i, a, j, b, k)
                        # "the same normalisation as H": H carries the double c = 1/sqrt(N) twice; both the exact 1/Nb and
                        # c^2 N / Nb are accepted (they differ by one rounding)
                        bad.append(differs(T[cj * rows + ri, k], (bs / Nb - H[ri, cj]) / s2))
                        bad2.append(differs(T[cj * rows + ri, k], (bs * c2 * N / Nb - H[ri, cj]) / s2))
        neg = z3.BoolVal(True) if why else z3.And(z3.Or(*bad), z3.Or(*bad2))
        tally.decide(e, neg, on_sat=lambda m, why=tuple(why): cexf(cfg, "; ".join(why) or None), label=f"factor l={l} r={r} br={br} nb={nb} Ndat={nd}")
    return tally.result(ex)


def cexf(cfg, note):
    v, d, key = replay_factor(cfg)
    return {"inputs": {}, "reproduced": v, "detail": (note + " | " if note else "") + d, "key": key}


def replay_factor(cfg):
    """real build_hank(calc_unc=True) on seeded data against the definition; classifies scaling vs vectorisation"""
    from pyoma2.functions import ssi
    l, r, br, nb = cfg["l"], cfg["r"], cfg["br"], cfg["nb"]
    last = (False, "factor as specified", None)
    # record lengths with N a multiple of nb and not (the block length is N // nb)
    for nd in (2 * br + 1 + nb * 40, 2 * br + 1 + nb * 40 + max(1, nb - 1)):
        last = _replay_factor_len(cfg, nd)
        if last[0]:
            return last
    return last


def _replay_factor_len(cfg, nd):
    from pyoma2.functions import ssi
    l, r, br, nb = cfg["l"], cfg["r"], cfg["br"], cfg["nb"]
    rng = np.random.RandomState(23)
    Y, Yref = rng.randn(l, nd) + 1.0, rng.randn(r, nd) - 0.5
    try:
        H, T = ssi.build_hank(Y, Yref, br, "cov_mm", calc_unc=True, nb=nb)
    except Exception as e:  # noqa: BLE001
        return True, f"build_hank(calc_unc=True) raised {type(e).__name__}: {e}", "build_hank:unc:raises"
    p, q = br, br + 1
    N = nd - p - q
    Nb = N // nb
    rows, cols = (br + 1) * l, (br + 1) * r
    Hk = np.zeros((nb, rows, cols))
    for k in range(nb):
        for ri in range(rows):
            for cj in range(cols):
                i, a = divmod(ri, l)
                j, b = divmod(cj, r)
                ts = [t for t in range(k * Nb, (k + 1) * Nb) if t < N - 1]
                Hk[k, ri, cj] = sum(Y[a, q + 1 + i + t] * Yref[b, q - j + t] for t in ts) / Nb
    s2 = np.sqrt(nb * (nb - 1))
    want_F = np.stack([(Hk[k] - H).flatten(order="F") / s2 for k in range(nb)], axis=1)
    want_C = np.stack([(Hk[k] - H).flatten(order="C") / s2 for k in range(nb)], axis=1)
    if T.shape != want_F.shape:
        return True, f"factor shape {T.shape}", "build_hank:unc:shape"
    if np.allclose(T, want_F, rtol=1e-9, atol=1e-12):
        return False, "factor as specified", None
    if np.allclose(T, want_C, rtol=1e-9, atol=1e-12) and rows * cols > 1 and not np.allclose(want_C, want_F):
        return True, "factor columns are row-major vectorisations of the deviations (the propagation step's Kronecker selectors need column-major)", \
            "build_hank:unc:row-major-vec"
    ratio = np.linalg.norm(T + np.stack([H.flatten(order="C")] * nb, axis=1) / s2) / np.linalg.norm(T)
    return True, (f"factor is not (vec(H_k) - vec(H))/sqrt(nb(nb-1)) with H_k the block moment matrix on H's normalisation: every column is "
                  f"within {ratio:.3g} (relative) of -vec(H)/sqrt(nb(nb-1)), i.e. the block estimates are scaled down by ~N"), "build_hank:unc:block-scaling"


def run_vec(cfg, tier):
    """the identities the propagation step relies on, for column-major vec (they fail for row-major on non-square shapes)"""
    R, C = cfg["rows"], cfg["cols"]
    tally = Tally(None, None)
    ex = Explorer()

    def body():
        return None

    for e, _ in ex.run_all(body):
        X = fresh("X", (R, C))
        u, v = fresh("u", (R,)), fresh("v", (C,))
        vecF = [X[i, j] for j in range(C) for i in range(R)]
        # (I_C (x) u^T) vec(X) = X^T u
        K1 = np.kron(np.eye(C), np.asarray(u, dtype=object).reshape(1, -1))
        lhs1 = [sum((lift(K1[a, k]) * vecF[k] for k in range(R * C)), lift(0)) for a in range(C)]
        rhs1 = [sum((X[i, a] * u[i] for i in range(R)), lift(0)) for a in range(C)]
        # (v^T (x) I_R) vec(X) = X v
        K2 = np.kron(np.asarray(v, dtype=object).reshape(1, -1), np.eye(R))
        lhs2 = [sum((lift(K2[a, k]) * vecF[k] for k in range(R * C)), lift(0)) for a in range(R)]
        rhs2 = [sum((X[a, j] * v[j] for j in range(C)), lift(0)) for a in range(R)]
        bad = [differs(x, y) for x, y in zip(lhs1 + lhs2, rhs1 + rhs2)]
        tally.decide(e, z3.Or(*bad), on_sat=lambda m: {"inputs": {}, "reproduced": False, "detail": "Kronecker identity fails", "key": "vec"},
                     label=f"Kronecker/vec identities {R}x{C}")
    return tally.result(ex)


def replay(ob, cfg, inputs):
    if ob == "O2":
        return False, "identity"
    if ob == "O3":
        v, d, _ = replay_fd(cfg)
        return v, d
    v, d, _ = replay_factor(cfg)
    return v, d
