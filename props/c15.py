"""C15 — runs are gated, deterministic, isolated; PoSER validates its inputs."""
import itertools

import numpy as np
import z3

from symx.arr import SymArray, fresh
from symx.core import SV, Explorer, concretize, differs, lift
from symx.harness import Tally, to_json
from symx.twin import World

PROPERTY = "C15"
META = {
    "explanation": "The real BaseSetup.add_algorithms / run_by_name / run_all / mpe, BaseAlgorithm._pre_run / _set_data / _set_result / "
                   "mpe prologues of every algorithm class, and MultiSetup_PoSER.__init__/_init_setups are executed on carrier objects.  "
                   "O1 gating: every combination of {data bound, fs bound, run parameters set, result present} is explored (solver-pruned "
                   "forking); O2 history independence: all call sequences up to the bound over two stub algorithms whose run() returns an "
                   "uninterpreted function of (own parameters, data bound at add time, fs) - z3 decides that every stored result is that "
                   "term whatever else was called, and that the bound data object is never replaced or written; O4: every assignment of "
                   "algorithm type lists, run/mpe states and name lists to 0..3 setups is explored and the constructor "
                   "outcome compared with the specification (ValueError otherwise).",
    "bounds": {"quick": {"histories": "<= 3 calls from {add A, add B, run A, run B, run_all, mpe A, mpe B, preprocess}", "PoSER": "0..3 setups, "
                         "0..2 algorithms each from 2 classes, names 0..3"},
               "thorough": {"histories": "<= 4 calls", "PoSER": "0..3 setups"}},
    "stubs": ["algorithm run()/mpe() bodies in O2 are stubs (uninterpreted function of parameters, bound data and fs)"],
    "assumptions": ["the pickle round trip (C serialiser) is outside the claim"],
}

UF = z3.Function("run_result", z3.RealSort(), z3.RealSort(), z3.RealSort(), z3.RealSort())   # (params, data id, fs) -> result


def jobs(tier):
    out = []
    classes = ["FDD", "EFDD", "FSDD", "FDD_MS", "EFDD_MS", "SSIdat", "SSIcov", "SSIdat_MS", "SSIcov_MS", "pLSCF", "pLSCF_MS"]
    for c in classes:
        out.append({"ob": "O1", "cfg": {"cls": c}})
    L = 3 if tier == "quick" else 4
    acts = ["addA", "addB", "runA", "runB", "run_all", "mpeA", "mpeB", "prep"]
    for n in range(1, L + 1):
        for seq in itertools.product(acts, repeat=n):
            if seq[0] not in ("addA", "addB"):
                if n > 1:
                    continue
            if tier == "quick" and n == 3 and seq.count("prep") > 1:
                continue
            out.append({"ob": "O2", "cfg": {"seq": list(seq)}})
    for c in classes:
        out.append({"ob": "O5", "cfg": {"cls": c}})
    nmax = 3
    for ns in range(0, nmax + 1):
        out.append({"ob": "O4", "cfg": {"nsetups": ns}})
    # the two algorithm classes are parent and subclass ("identical types" is exact type identity, not isinstance)
    for ns in range(2, nmax + 1):
        out.append({"ob": "O4", "cfg": {"nsetups": ns, "sub": True}})
    return out


def run(job, tier):
    return {"O1": run_gating, "O2": run_history, "O4": run_poser, "O5": run_frame}[job["ob"]](job["cfg"], tier)


class _O:
    pass


def get_cls(name):
    import pyoma2.algorithms.fdd as afdd
    import pyoma2.algorithms.plscf as aplscf
    import pyoma2.algorithms.ssi as assi
    for m in (afdd, assi, aplscf):
        if hasattr(m, name):
            return getattr(m, name)
    raise KeyError(name)


# ------------------------------------------------------------------------------------------ O5 write frame of run()
class _Stop(Exception):
    pass


def _stop_stubs():
    def stop(*a, **k):
        raise _Stop()
    return {"pyoma2.functions.fdd": {k: stop for k in ("SD_est", "SD_PreGER", "SD_svalsvec")},
            "pyoma2.functions.ssi": {k: stop for k in ("build_hank", "SSI_fast", "SSI_poles", "SSI_multi_setup")},
            "pyoma2.functions.plscf": {k: stop for k in ("pLSCF", "pLSCF_poles")}}


def _frame_params():
    rp = _O()
    rp.br, rp.method, rp.ordmin, rp.ordmax, rp.step, rp.calc_unc, rp.nb, rp.ref_ind = 2, None, 0, 2, 1, False, 2, None
    rp.nxseg, rp.method_SD, rp.pov, rp.DF, rp.sel_freq = 8, "per", 0.5, 0.1, None
    rp.sc = dict(err_fn=0.01, err_xi=0.05, err_phi=0.03)
    rp.hc = dict(conj=True, xi_max=0.1, mpc_lim=0.7, mpd_lim=0.3, cov_max=0.2)
    return rp


def run_frame(cfg, tier):
    """the part of run() that precedes identification does not write into the data bound to the algorithm (which is the array the
    setup, the other algorithms and the user share) - for data with an arbitrary NaN pattern; the identification functions
    themselves are the environment here (they stop the run)"""
    from symx.arr import fresh
    cls = get_cls(cfg["cls"])
    ms = cfg["cls"].endswith("_MS")
    W = World(per_module=_stop_stubs())
    tally = Tally(W, [cfg["cls"] + ".run"])
    ex = Explorer()
    st = {}

    def body():
        if ms:
            data = [{"ref": fresh("r0", (1, 6), nan=True), "mov": fresh("m0", (2, 6), nan=True)},
                    {"ref": fresh("r1", (1, 6), nan=True), "mov": fresh("m1", (1, 6), nan=True)}]
            arrays = [d[k] for d in data for k in ("ref", "mov")]
        else:
            data = fresh("d", (6, 2), nan=True)
            arrays = [data]
        st["arrays"] = arrays
        st["cells"] = [np.array(a, dtype=object).view(np.ndarray).copy() for a in arrays]
        alg = W.carrier(cls, run_params=_frame_params(), data=data, fs=10.0, dt=0.1, name="a")
        try:
            alg.run()
        except _Stop:
            return "stopped at identification"
        return "completed"

    for e, (kind, res) in ex.run_all(body):
        touched = [f"array {k} cell {list(ix)}" for k, (a, c0) in enumerate(zip(st["arrays"], st["cells"])) for ix in np.ndindex(c0.shape)
                   if np.asarray(a, dtype=object).view(np.ndarray)[ix] is not c0[ix]]
        why = None
        if kind == "exc":
            why = f"run() raised {type(res).__name__}: {res}"
        elif touched:
            why = f"run() wrote into the data bound to the algorithm: {touched[:3]}"
        tally.decide(e, z3.BoolVal(bool(why)), on_sat=lambda m, why=why: cex_frame(cfg, why), with_side=False,
                     label=f"{cfg['cls']}.run leaves the bound data untouched")
    return tally.result(ex)


def cex_frame(cfg, why):
    v, d = replay_frame(cfg)
    return {"inputs": {}, "reproduced": v, "detail": str(why) + " | " + d, "key": f"{cfg['cls']}.run:writes-data"}


def replay_frame(cfg):
    """real run() on data with NaN and inf samples, identification functions replaced by stoppers"""
    import importlib
    cls = get_cls(cfg["cls"])
    ms = cfg["cls"].endswith("_MS")
    rng = np.random.RandomState(3)

    def holes(a):
        a = a.copy()
        a.flat[1], a.flat[4] = np.nan, np.inf
        return a
    if ms:
        data = [{"ref": holes(rng.randn(1, 64)), "mov": holes(rng.randn(2, 64))}, {"ref": holes(rng.randn(1, 64)), "mov": holes(rng.randn(1, 64))}]
        arrays = [d[k] for d in data for k in ("ref", "mov")]
    else:
        data = holes(rng.randn(64, 2))
        arrays = [data]
    before = [a.copy() for a in arrays]
    saved = []
    try:
        for mn, d in _stop_stubs().items():
            mod = importlib.import_module(mn)
            for k, f in d.items():
                if hasattr(mod, k):
                    saved.append((mod, k, getattr(mod, k)))
                    setattr(mod, k, f)
        alg = object.__new__(cls)
        alg.run_params, alg.data, alg.fs, alg.dt, alg.name = _frame_params(), data, 10.0, 0.1, "a"
        try:
            with np.errstate(all="ignore"):
                alg.run()
        except _Stop:
            pass
        except Exception as e:  # noqa: BLE001
            return True, f"run() raised {type(e).__name__}: {e} before reaching identification"
    finally:
        for mod, k, f in saved:
            setattr(mod, k, f)
    for a0, a1 in zip(before, arrays):
        if not np.array_equal(a0, a1, equal_nan=True):
            return True, f"{cfg['cls']}.run modified the data array it was bound to (NaN/inf samples overwritten): every other algorithm and the user see the change"
    return False, "bound data untouched"


# ------------------------------------------------------------------------------------------ O1 gating
def run_gating(cfg, tier):
    from pyoma2.setup import base as sbase
    rec = {"ran": 0}
    marker = object()

    def fake_run(self):
        rec["ran"] += 1
        return marker

    W = World()
    T = W.cls(get_cls(cfg["cls"]))
    Tsetup = W.cls(sbase.BaseSetup)
    tally = Tally(W, ["BaseSetup.run_by_name", "BaseSetup.mpe", "_pre_run", "_set_result", cfg["cls"] + ".mpe", "BaseAlgorithm.mpe"])
    ex = Explorer()
    st = {}

    def body():
        e = Explorer.cur
        has_data, has_fs, has_rp, has_res = (e.choose(2, k) for k in ("data", "fs", "rp", "res"))
        which = e.choose(2, "call")     # 0: run_by_name, 1: mpe
        alg = object.__new__(T)
        alg.name = "a"
        alg.data = np.zeros((8, 2)) if has_data else None
        alg.fs = 10.0 if has_fs else None
        alg.dt = 0.1 if has_fs else None
        alg.run_params = _O() if has_rp else None
        old = _O() if has_res else None
        alg.result = old
        alg.run = fake_run.__get__(alg)
        su = object.__new__(Tsetup)
        su.algorithms = {"a": alg}
        st.update(alg=alg, old=old, flags=(has_data, has_fs, has_rp, has_res), which=which)
        rec["ran"] = 0
        if which == 0:
            su.run_by_name("a")
        else:
            if cfg["cls"].startswith(("EFDD", "FSDD")):
                su.mpe("a", sel_freq=[1.0])
            elif cfg["cls"].startswith("FDD"):
                su.mpe("a", sel_freq=[1.0], DF=0.1)
            else:
                su.mpe("a", sel_freq=[1.0], order=1, rtol=0.01)
        return alg

    for e, (kind, res) in ex.run_all(body):
        alg, old, (has_data, has_fs, has_rp, has_res), which = st["alg"], st["old"], st["flags"], st["which"]
        why = []
        if which == 0:
            ok_pre = has_data and has_fs and has_rp
            if ok_pre:
                if kind != "ok" or alg.result is not marker or rec["ran"] != 1:
                    why.append("run_by_name with data, fs and parameters did not store the run's result")
            else:
                if kind != "exc":
                    why.append(f"run_by_name ran without {'data ' if not has_data else ''}{'fs ' if not has_fs else ''}"
                               f"{'run_params' if not has_rp else ''}")
                if alg.result is not old or rec["ran"] != 0:
                    why.append("a refused run changed the stored result / executed run()")
        else:
            if not has_res:
                if kind != "exc":
                    why.append("mpe without a prior run did not raise")
                if alg.result is not None:
                    why.append("mpe without a prior run stored something in result")
        lab = f"{cfg['cls']} {'run_by_name' if which == 0 else 'mpe'} data={has_data} fs={has_fs} params={has_rp} result={has_res}"
        tally.decide(e, z3.BoolVal(bool(why)), on_sat=lambda m, why=tuple(why), lab=lab: {
            "inputs": {"flags": [has_data, has_fs, has_rp, has_res], "which": which}, "reproduced": True, "detail": lab + ": " + "; ".join(why),
            "key": f"{cfg['cls']}:gating:{'run' if which == 0 else 'mpe'}"}, label=lab)
    return tally.result(ex)


# ------------------------------------------------------------------------------------------ O2 history independence
def run_history(cfg, tier):
    from pyoma2.algorithms import base as abase
    from pyoma2.setup import base as sbase
    W = World()
    TB = W.cls(abase.BaseAlgorithm)
    Tsetup = W.cls(sbase.BaseSetup)
    tally = Tally(W, ["BaseSetup", "BaseAlgorithm._set_data", "BaseAlgorithm._set_result", "BaseAlgorithm._pre_run"])
    ex = Explorer()
    st = {}
    seq = cfg["seq"]

    def mk_alg(name, p):
        class Stub(TB):     # run/mpe are the environment here; everything else is the real base class
            RunParamCls = abase.BaseModel if hasattr(abase, "BaseModel") else object
            ResultCls = abase.BaseResult if hasattr(abase, "BaseResult") else object

            def run(self):
                r = _O()
                r.value = SV(UF(self.run_params.p.v, self.data.ident.v, lift(self.fs).z))
                r.Fn = None
                return r

            def mpe(self, *a, **k):
                abase.BaseAlgorithm.mpe(self) if False else TB.mpe(self)
                self.result.Fn = SV(UF(self.run_params.p.v, self.data.ident.v, lift(self.fs).z) + 1)

            def mpe_from_plot(self, *a, **k):
                pass
        a = object.__new__(Stub)
        a.name = name
        rp = _O()
        rp.p = p
        a.run_params = rp
        return a

    def body():
        su = object.__new__(Tsetup)
        d0 = _O()
        d0.ident = fresh("data0")
        su.data, su.fs = d0, fresh("fs0", nn=True)
        su.algorithms = {}
        Explorer.cur.assume(su.fs.v > 0)
        pA, pB = fresh("pA"), fresh("pB")
        algs = {"A": mk_alg("A", pA), "B": mk_alg("B", pB)}
        bound = {}
        model = {}   # name -> expected result term (None = not run)
        log = []
        nprep = 0
        for a in seq:
            try:
                if a.startswith("add"):
                    n = a[-1]
                    su.add_algorithms(algs[n])
                    bound[n] = (su.data, su.fs)
                    model.setdefault(n, None)
                elif a.startswith("run") and a != "run_all":
                    n = a[-1]
                    su.run_by_name(n)
                    model[n] = UF(algs[n].run_params.p.v, bound[n][0].ident.v, bound[n][1].z)
                elif a == "run_all":
                    su.run_all()
                    for n in list(model):
                        model[n] = UF(algs[n].run_params.p.v, bound[n][0].ident.v, bound[n][1].z)
                elif a.startswith("mpe"):
                    su.mpe(a[-1])
                elif a == "prep":
                    # a preprocessing step replaces the setup's data object and sampling frequency
                    nprep += 1
                    d = _O()
                    d.ident = fresh(f"data{nprep}")
                    su.data = d
                    su.fs = su.fs / 2
                log.append((a, None))
            except Exception as e:  # noqa: BLE001
                log.append((a, e))
        st.update(su=su, algs=algs, bound=bound, model=model, log=log)
        return su

    for e, (kind, res) in ex.run_all(body):
        su, algs, bound, model, log = (st[k] for k in ("su", "algs", "bound", "model", "log"))
        why, bad = [], []
        if kind == "exc":
            why.append(f"raised {res!r}")
        # calls on algorithms that were not added / not run must raise; all others must not
        added = set()
        ran = set()
        for a, exn in log:
            n = a[-1] if a not in ("run_all", "prep") else None
            if a.startswith("add"):
                added.add(n)
                if exn:
                    why.append(f"{a} raised {exn!r}")
            elif a.startswith("run") and a != "run_all":
                if n in added:
                    ran.add(n)
                    if exn:
                        why.append(f"{a} raised {exn!r}")
                elif not exn:
                    why.append(f"{a} on an algorithm that was never added did not raise")
            elif a == "run_all":
                ran |= added
                if exn:
                    why.append(f"run_all raised {exn!r}")
            elif a.startswith("mpe"):
                if n in ran:
                    if exn:
                        why.append(f"{a} after a run raised {exn!r}")
                elif not exn:
                    why.append(f"{a} without a prior run did not raise")
        if list(su.algorithms) != [n for n in dict.fromkeys(a[-1] for a, _ in log if a.startswith("add"))]:
            why.append(f"algorithms dict order {list(su.algorithms)}")
        for n, alg in algs.items():
            if n in added:
                if alg.data is not bound[n][0]:
                    why.append(f"algorithm {n}: bound data object was replaced after it was added")
                bad.append(differs(alg.fs, bound[n][1]))
                if model.get(n) is None:
                    if alg.result is not None:
                        why.append(f"algorithm {n} has a result although it was never run")
                else:
                    if alg.result is None:
                        why.append(f"algorithm {n} was run but has no result")
                    else:
                        bad.append(differs(alg.result.value, SV(model[n])))
            else:
                if getattr(alg, "result", None) is not None:
                    why.append(f"algorithm {n} was never added but has a result")
        neg = z3.BoolVal(True) if why else (z3.Or(*bad) if bad else z3.BoolVal(False))
        tally.decide(e, neg, on_sat=lambda m, why=tuple(why): {"inputs": {"seq": seq}, "reproduced": True, "detail": f"{seq}: " + ("; ".join(why) or
                     "a stored result / fs differs from f(own parameters, data bound at add time)"), "key": "BaseSetup:history"}, label=",".join(seq))
    return tally.result(ex)


# ------------------------------------------------------------------------------------------ O4 PoSER constructor
def run_poser(cfg, tier):
    from pyoma2.setup import multi
    W = World()
    T = W.cls(multi.MultiSetup_PoSER)
    tally = Tally(W, ["MultiSetup_PoSER.__init__", "MultiSetup_PoSER._init_setups"])
    ex = Explorer(max_paths=400000)
    ns = cfg["nsetups"]
    st = {}

    class A:
        pass

    class B(A if cfg.get("sub") else object):
        pass

    sub = bool(cfg.get("sub"))

    def body():
        e = Explorer.cur
        setups = []
        desc = []
        for i in range(ns):
            na = e.choose(3, f"na{i}")
            algs = {}
            d = []
            for j in range(na):
                c = e.choose(2, f"c{i}_{j}")
                # 0: not run, 1: run without modes, 2: run and modes extracted (3+ setups: 0/2 only, the middle state is
                # covered exhaustively for <= 2 setups)
                state = e.choose(3, f"s{i}_{j}") if ns <= 2 else 2 * e.choose(2, f"s{i}_{j}")
                a = (A if c == 0 else B)()
                a.name = f"alg{j}"
                if state == 0:
                    a.result = None
                else:
                    a.result = _O()
                    a.result.Fn = None if state == 1 else np.array([1.0])
                algs[f"alg{j}"] = a
                d.append((c, state))
            su = _O()
            su.algorithms = algs
            setups.append(su)
            desc.append(d)
        nn = e.choose(4 if ns <= 2 else 3, "nnames")
        names = [f"n{k}" for k in range(nn)]
        # name lists with a repeated entry (one name per algorithm is a statement about the list, not about its distinct values)
        if ns == 2 and nn >= 1 and e.choose(2, "repeat"):
            names = names + [names[0]]
        st.update(desc=desc, names=names)
        obj = object.__new__(T)
        T.__init__(obj, ref_ind=[[0]] * ns, single_setups=setups, names=names)
        return obj

    for e, (kind, res) in ex.run_all(body):
        desc, names = st["desc"], st["names"]
        ok = (len(desc) >= 2 and all(len(d) > 0 for d in desc) and all([c for c, _ in d] == [c for c, _ in desc[0]] for d in desc)
              and len(names) == (len(desc[0]) if desc else -1) and all(s == 2 for d in desc for _, s in d))
        why = None
        if ok and kind != "ok":
            why = f"valid configuration rejected: {res!r}"
        elif not ok and kind == "ok":
            why = "invalid configuration accepted"
        elif not ok and not isinstance(res, ValueError):
            why = f"invalid configuration raised {type(res).__name__} instead of ValueError"
        lab = f"setups={desc} names={len(names)}" + (" (class 1 is a subclass of class 0)" if sub else "")
        tally.decide(e, z3.BoolVal(bool(why)), on_sat=lambda m, why=why, lab=lab: {"inputs": {"desc": desc, "names": names, "sub": sub}, "reproduced":
                     replay_poser(desc, names, sub)[0], "detail": lab + ": " + str(why) + " | real: " + replay_poser(desc, names, sub)[1],
                     "key": "MultiSetup_PoSER:validation"}, label=lab if why else "PoSER validation")
    r = tally.result(ex)
    return r


def replay_poser(desc, names, sub=False):
    from pyoma2.setup import multi

    class A:
        pass

    class B(A if sub else object):
        pass
    setups = []
    for d in desc:
        algs = {}
        for j, (c, state) in enumerate(d):
            a = (A if c == 0 else B)()
            a.name = f"alg{j}"
            a.result = None
            if state:
                a.result = _O()
                a.result.Fn = None if state == 1 else np.array([1.0])
            algs[f"alg{j}"] = a
        su = _O()
        su.algorithms = algs
        setups.append(su)
    ok = (len(desc) >= 2 and all(len(d) > 0 for d in desc) and all([c for c, _ in d] == [c for c, _ in desc[0]] for d in desc)
          and len(names) == (len(desc[0]) if desc else -1) and all(s == 2 for d in desc for _, s in d))
    try:
        multi.MultiSetup_PoSER(ref_ind=[[0]] * len(desc), single_setups=setups, names=list(names))
        got = "accepted"
    except ValueError:
        got = "ValueError"
    except Exception as e:  # noqa: BLE001
        got = type(e).__name__
    if (ok and got != "accepted") or (not ok and got != "ValueError"):
        return True, f"constructor outcome {got} for a {'valid' if ok else 'invalid'} configuration"
    return False, "constructor outcome as specified"


def replay(ob, cfg, inputs):
    if ob == "O5":
        return replay_frame(cfg)
    if ob == "O4":
        return replay_poser(inputs["desc"], inputs["names"], inputs.get("sub", False))
    return True, "deterministic finding on the real base classes (see detail in evidence)"
