"""C09 — hard validation criteria are enforced soundly, completely and consistently."""
import itertools

import numpy as np
import z3

from symx.arr import SymArray, fresh
from symx.core import SB, SC, SV, Explorer, concretize, differs, lift, toc
from symx.harness import Tally, to_json
from symx.twin import World

PROPERTY = "C09"
CLASSES = ["SSIdat", "SSIdat_MS", "pLSCF", "pLSCF_MS"]
META = {
    "explanation": "The real run() bodies of SSIdat (shared by SSIcov), SSIdat_MS (shared by SSIcov_MS), pLSCF and "
                   "pLSCF_MS, together with the real gen.HC_conj/HC_damp/HC_phi_comp/HC_cov/applymask, are executed on "
                   "symbolic pole tables (identification stubbed to return them) with symbolic criteria values.",
    "bounds": {"quick": {"table": "2 rows x 2 orders, 2 channels, arbitrary shared initial NaN pattern",
                         "criteria": "xi_max, mpc_lim, mpd_lim, cov_max symbolic; conj on/off; with/without covariances"},
               "thorough": {"table": "3 x 2 and 2 x 3", "criteria": "as quick"}},
    "stubs": ["identification (build_hank, SSI_fast, SSI_poles, SSI_multi_setup, SD_est, SD_PreGER, pLSCF, pLSCF_poles) "
              "returns the symbolic tables", "gen.MPC / gen.MPD: one uninterpreted real per pole (NaN for a NaN pole), "
              "keyed by call position; their own properties are C18", "gen.SC_apply stubbed (C10)",
              "result classes (pydantic) kept real"],
    "assumptions": ["ties are not judged: soundness is checked with non-strict comparisons, completeness only for poles "
                    "strictly inside every limit", "a computed frequency covariance is > 0 (an exact 0 would be blanked by "
                    "the x*mask==0 idiom)", "damping of a retained unfiltered pole is non-zero is NOT assumed",
                    "conjugate presence: soundness accepts a conjugate anywhere in the unfiltered eigenvalue table, "
                    "completeness requires it at the same order"],
}


def jobs(tier):
    shapes = [(2, 2)] if tier == "quick" else [(2, 2), (3, 2), (2, 3)]
    out = []
    for cls in CLASSES:
        for shp in shapes:
            for conj in (True, False):
                covs = (False, True) if cls == "SSIdat" else (False,)
                for cov in covs:
                    if conj and shp != (2, 2) and cov:
                        continue
                    out.append({"ob": "O123", "cfg": {"cls": cls, "shape": list(shp), "conj": conj, "cov": cov}})
    return out


class _Obj:
    pass


def symbolic_tables(cfg):
    R, C = cfg["shape"]
    nch = 2
    n0 = np.empty((R, C), dtype=object)
    for i in range(R):
        for j in range(C):
            n0[i, j] = z3.Bool(f"nan0_{i}_{j}")

    def tab(name, complex_=False, extra=()):
        a = np.empty((R, C) + tuple(extra), dtype=object)
        for ix in np.ndindex(a.shape):
            nm = name + "_" + "_".join(map(str, ix))
            flag = n0[ix[0], ix[1]]
            a[ix] = SC(z3.Real(nm + "r"), z3.Real(nm + "i"), flag) if complex_ else SV(z3.Real(nm), flag)
        return SymArray(a)

    T = {"Fn": tab("Fn"), "Xi": tab("Xi"), "Phi": tab("Phi", True, (nch,)), "L": tab("L", True)}
    if cfg["cov"]:
        T.update(Fn_cov=tab("Fncov"), Xi_cov=tab("Xicov"), Phi_cov=tab("Phicov", False, (nch,)))
    else:
        T.update(Fn_cov=None, Xi_cov=None, Phi_cov=None)
    T["n0"] = n0
    T["mpc"] = [[z3.Real(f"mpc_{i}_{j}") for j in range(C)] for i in range(R)]
    T["mpd"] = [[z3.Real(f"mpd_{i}_{j}") for j in range(C)] for i in range(R)]
    return T


def make_world(T, cfg, hooks):
    """World whose identification functions return the tables in T (symbolic or concrete);
    hooks: dict with 'mpc'/'mpd' callables(phi, k) -> value"""
    R, C = cfg["shape"]
    counters = {"mpc": 0, "mpd": 0}

    def MPC(phi):
        k = counters["mpc"]
        counters["mpc"] += 1
        return hooks["mpc"](phi, divmod(k % (R * C), C))

    def MPD(phi):
        k = counters["mpd"]
        counters["mpd"] += 1
        return hooks["mpd"](phi, divmod(k % (R * C), C))

    def copy(x):
        return None if x is None else x.copy()

    def SSI_poles(*a, **k):
        return copy(T["Fn"]), copy(T["Xi"]), copy(T["Phi"]), copy(T["L"]), copy(T["Fn_cov"]), copy(T["Xi_cov"]), copy(T["Phi_cov"])

    def pLSCF_poles(*a, **k):
        return copy(T["Fn"]), copy(T["Xi"]), copy(T["Phi"]), copy(T["L"])

    dummy = np.zeros((2, 2))
    ssi_stub = {"build_hank": lambda **k: (dummy, None), "SSI_fast": lambda *a, **k: (dummy, [dummy], [dummy], None, None, None, None),
                "SSI_poles": SSI_poles, "SSI_multi_setup": lambda *a, **k: (dummy, [dummy], [dummy])}
    fdd_stub = {"SD_est": lambda *a, **k: (np.arange(3.0), dummy), "SD_PreGER": lambda *a, **k: (np.arange(3.0), dummy)}
    plscf_stub = {"pLSCF": lambda *a, **k: ([dummy], [dummy]), "pLSCF_poles": pLSCF_poles}
    gen_stub = {"MPC": MPC, "MPD": MPD, "SC_apply": lambda Fn, *a, **k: np.zeros(np.shape(Fn), dtype=int)}
    return {"pyoma2.functions.ssi": ssi_stub, "pyoma2.functions.fdd": fdd_stub, "pyoma2.functions.plscf": plscf_stub,
            "pyoma2.functions.gen": gen_stub}


def carrier_attrs(cfg, hc):
    rp = _Obj()
    rp.br, rp.method, rp.ordmin, rp.ordmax, rp.step, rp.calc_unc, rp.nb, rp.ref_ind = 2, None, 0, cfg["shape"][1] - 1, 1, cfg["cov"], 2, None
    rp.nxseg, rp.method_SD, rp.pov = 8, "per", 0.5
    rp.sc = dict(err_fn=0.01, err_xi=0.05, err_phi=0.03)
    rp.hc = hc
    return dict(run_params=rp, data=np.zeros((6, 2)) if "MS" not in cfg["cls"] else [{"ref": np.zeros((1, 6)), "mov": np.zeros((1, 6))}],
                fs=10.0, dt=0.1, name="alg")


def get_cls(name):
    import pyoma2.algorithms.plscf as aplscf
    import pyoma2.algorithms.ssi as assi
    return getattr(assi if name.startswith("SSI") else aplscf, name)


def run(job, tier):
    cfg = job["cfg"]
    R, C = cfg["shape"]
    is_ssi = cfg["cls"].startswith("SSI")
    st = {}
    hooks = {"mpc": lambda phi, rc: SV(st["T"]["mpc"][rc[0]][rc[1]], lift(phi[0]).nan),
             "mpd": lambda phi, rc: SV(st["T"]["mpd"][rc[0]][rc[1]], lift(phi[0]).nan)}
    tally = None
    ex = Explorer(timeout_ms=20000 if tier == "quick" else 60000, max_paths=50000)
    W = None

    def body():
        T = symbolic_tables(cfg)
        st["T"] = T
        nonlocal W, tally
        W = World(per_module=make_world(T, cfg, hooks))
        if tally is None:
            tally = Tally(W, ["run", "HC_", "applymask"])
        else:
            tally.world = W
        hc = dict(conj=cfg["conj"], xi_max=fresh("xi_max"), mpc_lim=fresh("mpc_lim"), mpd_lim=fresh("mpd_lim"), cov_max=fresh("cov_max"))
        st["hc"] = dict(hc)          # the oracle's copy
        st["hc_live"] = hc           # the dict the algorithm object owns (frame condition: a run does not alter its parameters)
        alg = W.carrier(get_cls(cfg["cls"]), **carrier_attrs(cfg, hc))
        return alg.run()

    for e, (kind, res) in ex.run_all(body):
        T, hc = st["T"], st["hc"]
        assume = [hc["xi_max"].z > 0, hc["xi_max"].z <= 1, hc["mpc_lim"].z >= 0, hc["mpc_lim"].z <= 1, hc["mpd_lim"].z >= 0,
                  hc["mpd_lim"].z <= z3.Q(157, 100), hc["cov_max"].z > 0]
        for i in range(R):
            for j in range(C):
                assume += [T["mpc"][i][j] >= 0, T["mpc"][i][j] <= 1, T["mpd"][i][j] >= 0, T["mpd"][i][j] <= z3.Q(158, 100)]
                if cfg["cov"]:
                    assume.append(T["Fn_cov"][i, j].z > 0)
        if kind == "exc":
            tally.decide(e, z3.BoolVal(True), assume, on_sat=lambda m: cex(cfg, st, m, "O1", f"run() raised {res!r}"))
            continue
        live = st["hc_live"]
        if set(live) != set(hc) or any(live[k] is not hc[k] for k in hc):
            tally.decide(e, z3.BoolVal(True), assume, on_sat=lambda m: cex(cfg, st, m, "O1", f"run() altered run_params.hc: keys now {sorted(live)}"),
                         label="run parameters are not modified by a run")
            continue
        out = {"Fn": res.Fn_poles, "Xi": res.Xi_poles, "Phi": res.Phi_poles}
        if is_ssi:
            out["L"] = res.Lambds
            if cfg["cov"]:
                out.update(Fn_cov=res.Fn_poles_cov, Xi_cov=res.Xi_poles_cov, Phi_cov=res.Phi_poles_cov)
        sound, complete, pattern, sound_r, complete_r = [], [], [], [], []
        for i in range(R):
            for j in range(C):
                n0 = T["n0"][i, j]
                L = T["L"][i, j]
                conj_any = z3.Or(*[z3.And(z3.Not(T["n0"][k, l]), T["L"][k, l].re == L.re, T["L"][k, l].im == -L.im)
                                   for k in range(R) for l in range(C)])
                conj_same = z3.Or(*[z3.And(z3.Not(T["n0"][k, j]), T["L"][k, j].re == L.re, T["L"][k, j].im == -L.im)
                                    for k in range(R)])
                xi, mpc, mpd = T["Xi"][i, j].z, T["mpc"][i][j], T["mpd"][i][j]
                weak = [z3.Not(n0), xi >= 0, xi <= hc["xi_max"].z, mpc >= hc["mpc_lim"].z, mpd <= hc["mpd_lim"].z]
                strong = [z3.Not(n0), xi > 0, xi < hc["xi_max"].z, mpc > hc["mpc_lim"].z, mpd < hc["mpd_lim"].z]
                if cfg["conj"]:
                    weak.append(conj_any)
                    strong.append(conj_same)
                if cfg["cov"] and is_ssi:
                    weak.append(T["Fn_cov"][i, j].z <= hc["cov_max"].z)
                    strong.append(T["Fn_cov"][i, j].z < hc["cov_max"].z)
                nan_fn = lift(out["Fn"][i, j]).nan
                sound.append(z3.And(z3.Not(nan_fn), z3.Not(z3.And(*weak))))
                # model pickers with a relative margin of 1e-7 (the property does not judge within 1e-9 of a threshold)
                mg = z3.Q(1, 10 ** 7)
                weak_r = [z3.Not(n0), xi >= -mg, xi <= hc["xi_max"].z * (1 + mg), mpc >= hc["mpc_lim"].z * (1 - mg) - mg,
                          mpd <= hc["mpd_lim"].z * (1 + mg) + mg]
                strong_r = [z3.Not(n0), xi > mg, xi < hc["xi_max"].z * (1 - mg), mpc > hc["mpc_lim"].z * (1 + mg) + mg,
                            mpd < hc["mpd_lim"].z * (1 - mg) - mg]
                if cfg["conj"]:
                    weak_r.append(conj_any)
                    strong_r.append(conj_same)
                if cfg["cov"] and is_ssi:
                    weak_r.append(T["Fn_cov"][i, j].z <= hc["cov_max"].z * (1 + mg))
                    strong_r.append(T["Fn_cov"][i, j].z < hc["cov_max"].z * (1 - mg))
                sound_r.append(z3.And(z3.Not(nan_fn), z3.Not(z3.And(*weak_r))))
                unchanged = [differs(out["Fn"][i, j], T["Fn"][i, j]), differs(out["Xi"][i, j], T["Xi"][i, j])]
                unchanged += [differs(out["Phi"][i, j, c], T["Phi"][i, j, c]) for c in range(2)]
                if "L" in out:
                    unchanged.append(differs(out["L"][i, j], T["L"][i, j]))
                if "Fn_cov" in out:
                    unchanged += [differs(out["Fn_cov"][i, j], T["Fn_cov"][i, j]), differs(out["Xi_cov"][i, j], T["Xi_cov"][i, j])]
                    unchanged += [differs(out["Phi_cov"][i, j, c], T["Phi_cov"][i, j, c]) for c in range(2)]
                complete.append(z3.And(z3.And(*strong), z3.Or(*unchanged)))
                complete_r.append(z3.And(z3.And(*strong_r), z3.Or(*unchanged)))
                flags = [lift(out["Xi"][i, j]).nan] + [lift(out["Phi"][i, j, c]).nan for c in range(2)]
                if "L" in out:
                    flags.append(lift(out["L"][i, j]).nan)
                if "Fn_cov" in out:
                    flags += [lift(out["Fn_cov"][i, j]).nan, lift(out["Xi_cov"][i, j]).nan]
                    flags += [lift(out["Phi_cov"][i, j, c]).nan for c in range(2)]
                pattern.append(z3.Or(*[f != nan_fn for f in flags]))
        tally.decide(e, z3.Or(*sound), assume, robust=z3.Or(*sound_r), on_sat=lambda m: cex(cfg, st, m, "O1", None), label="O1 soundness")
        tally.decide(e, z3.Or(*complete), assume, robust=z3.Or(*complete_r), on_sat=lambda m: cex(cfg, st, m, "O2", None),
                     label="O2 completeness")
        tally.decide(e, z3.Or(*pattern), assume, on_sat=lambda m: cex(cfg, st, m, "O3", None), label="O3 single NaN pattern")
    return tally.result(ex)


def cex(cfg, st, m, which, note):
    T, hc = st["T"], st["hc"]
    inputs = {k: (None if T[k] is None else concretize(m, T[k])) for k in ("Fn", "Xi", "Phi", "L", "Fn_cov", "Xi_cov", "Phi_cov")}
    inputs["mpc"] = [[float(concretize(m, SV(v))) for v in row] for row in T["mpc"]]
    inputs["mpd"] = [[float(concretize(m, SV(v))) for v in row] for row in T["mpd"]]
    inputs["hc"] = {k: (v if isinstance(v, bool) else concretize(m, v)) for k, v in hc.items()}
    viol, detail, key = replay_run(cfg, inputs, which)
    return {"inputs": to_json(inputs), "reproduced": viol, "detail": (note + "; " if note else "") + detail, "key": key}


def replay_run(cfg, inputs, which=None):
    """real run() with identification stubbed to return the concrete tables; MPC/MPD looked up per pole"""
    import pyoma2.functions.fdd as fdd
    import pyoma2.functions.gen as gen
    import pyoma2.functions.plscf as plscf
    import pyoma2.functions.ssi as ssi
    R, C = cfg["shape"]
    is_ssi = cfg["cls"].startswith("SSI")
    T = {k: (None if inputs.get(k) is None else np.array(inputs[k])) for k in ("Fn", "Xi", "Phi", "L", "Fn_cov", "Xi_cov", "Phi_cov")}
    T["Fn"], T["Xi"] = T["Fn"].astype(float), T["Xi"].astype(float)
    T["Phi"], T["L"] = T["Phi"].astype(complex), T["L"].astype(complex)
    # give every pole a recognisable shape so that the MPC/MPD lookup can identify the pole from its argument
    mpc, mpd = np.array(inputs["mpc"], dtype=float), np.array(inputs["mpd"], dtype=float)

    def look(table):
        def f(phi):
            if np.any(np.isnan(phi)):
                raise np.linalg.LinAlgError("NaN shape")
            for i in range(R):
                for j in range(C):
                    if not np.any(np.isnan(T["Phi"][i, j])) and np.allclose(phi, T["Phi"][i, j], rtol=0, atol=0):
                        return np.float64(table[i, j])
            raise np.linalg.LinAlgError("unknown shape")
        return f
    for i in range(R):
        for j in range(C):
            if not np.any(np.isnan(T["Phi"][i, j])):
                T["Phi"][i, j, :] = [1.0 + i + 10 * j, 0.5 + 0.25j * (i + 1)]
    hooks = {"mpc": None, "mpd": None}
    stubs = make_world(T, cfg, hooks)
    stubs["pyoma2.functions.gen"]["MPC"] = look(mpc)
    stubs["pyoma2.functions.gen"]["MPD"] = look(mpd)
    mods = {"pyoma2.functions.ssi": ssi, "pyoma2.functions.fdd": fdd, "pyoma2.functions.plscf": plscf, "pyoma2.functions.gen": gen}
    saved = []
    hc = dict(inputs["hc"])
    try:
        for mn, d in stubs.items():
            for k, v in d.items():
                saved.append((mods[mn], k, getattr(mods[mn], k)))
                setattr(mods[mn], k, v)
        cls = get_cls(cfg["cls"])
        alg = object.__new__(cls)
        for k, v in carrier_attrs(cfg, hc).items():
            setattr(alg, k, v)
        try:
            with np.errstate(all="ignore"):
                res = alg.run()
        except Exception as e:  # noqa: BLE001
            return True, f"run() raised {type(e).__name__}: {e}", f"{cfg['cls']}.run:raises"
        if set(hc) != set(inputs["hc"]) or any(hc[k] is not inputs["hc"][k] and hc[k] != inputs["hc"][k] for k in hc):
            return True, (f"run() altered run_params.hc (keys {sorted(inputs['hc'])} -> {sorted(hc)}): a second run of the same object "
                          f"applies different criteria"), f"{cfg['cls']}.run:modifies-run-params"
    finally:
        for mod, k, v in saved:
            setattr(mod, k, v)
    out = {"Fn": res.Fn_poles, "Xi": res.Xi_poles, "Phi": res.Phi_poles}
    if is_ssi:
        out["L"] = res.Lambds
        if cfg["cov"]:
            out.update(Fn_cov=res.Fn_poles_cov, Xi_cov=res.Xi_poles_cov, Phi_cov=res.Phi_poles_cov)
    n0 = np.isnan(T["Fn"])
    eps = 1e-8
    for i in range(R):
        for j in range(C):
            L = T["L"][i, j]
            conj_any = any((not n0[k, l]) and T["L"][k, l] == np.conj(L) for k in range(R) for l in range(C))
            conj_same = any((not n0[k, j]) and T["L"][k, j] == np.conj(L) for k in range(R))
            xi = T["Xi"][i, j]
            kept = not np.isnan(out["Fn"][i, j])
            crit = {"xi": (0 - eps <= xi <= hc["xi_max"] * (1 + eps)), "mpc": mpc[i, j] >= hc["mpc_lim"] * (1 - eps) - eps,
                    "mpd": mpd[i, j] <= hc["mpd_lim"] * (1 + eps) + eps}
            strict = (not n0[i, j]) and 0 < xi < hc["xi_max"] * (1 - eps) and mpc[i, j] > hc["mpc_lim"] * (1 + eps) + eps and \
                mpd[i, j] < hc["mpd_lim"] * (1 - eps) - eps
            if hc["conj"]:
                crit["conj"] = conj_any
                strict = strict and conj_same
            if cfg["cov"] and is_ssi:
                crit["cov"] = T["Fn_cov"][i, j] <= hc["cov_max"] * (1 + eps)
                strict = strict and T["Fn_cov"][i, j] < hc["cov_max"] * (1 - eps)
            if kept and (n0[i, j] or not all(crit.values())):
                bad = [k for k, v in crit.items() if not v]
                return True, (f"{cfg['cls']}: pole ({i},{j}) retained although it violates {bad}: xi={xi:.4g} mpc={mpc[i, j]:.4g} "
                              f"mpd={mpd[i, j]:.4g} limits={ {k: (round(float(v), 6) if not isinstance(v, bool) else v) for k, v in hc.items()} }"), \
                    f"{cfg['cls']}.run:unsound:" + "+".join(bad)
            if strict:
                same = kept and out["Fn"][i, j] == T["Fn"][i, j] and out["Xi"][i, j] == T["Xi"][i, j] and \
                    np.array_equal(out["Phi"][i, j], T["Phi"][i, j])
                if same and "L" in out:
                    same = out["L"][i, j] == T["L"][i, j]
                if same and "Fn_cov" in out:
                    same = out["Fn_cov"][i, j] == T["Fn_cov"][i, j] and out["Xi_cov"][i, j] == T["Xi_cov"][i, j] and \
                        np.array_equal(out["Phi_cov"][i, j], T["Phi_cov"][i, j])
                if not same:
                    return True, f"{cfg['cls']}: pole ({i},{j}) satisfies every criterion strictly but was removed or altered", \
                        f"{cfg['cls']}.run:incomplete"
            flags = {k: bool(np.any(np.isnan(v[i, j]))) for k, v in out.items()}
            if len(set(flags.values())) > 1:
                return True, f"{cfg['cls']}: NaN pattern differs between tables at ({i},{j}): {flags}", f"{cfg['cls']}.run:nan-pattern"
    return False, "criteria enforced soundly, completely, single NaN pattern", None


def replay(ob, cfg, inputs):
    v, d, _ = replay_run(cfg, inputs)
    return v, d
