"""C03 — PreGER multi-setup SSI identifies the global system exactly on noise-free data (unit lemmas) and the
reference/roving split keeps every channel intact."""
import itertools

import numpy as np
import z3

from props.c01 import LA, idiom_dot, make_world, mm, observability
from symx.arr import SymArray, fresh
from symx.core import SV, Explorer, ShimGap, concretize, differs, lift
from symx.harness import Tally
from symx.twin import World

PROPERTY = "C03"
META = {
    "explanation": "O1 the real gen.pre_multisetup on datasets of symbolic samples for every ordered reference subset (<= 2 references) of "
                   "every channel count <= 5: 'ref' row j is channel ref_ind[j] (listed order), 'mov' holds the remaining channels in "
                   "ascending order, every sample exactly once.  O23 the real ssi.SSI_multi_setup with build_hank stubbed and the per-setup "
                   "SVD stub returning Obs_k = O_k*T_k, where O_k = [C_k; C_k A; ...] takes its rows from ONE global order-2 system at that "
                   "setup's sensors and T_k is a symbolic invertible basis change per setup (this is how per-setup amplitude and initial "
                   "conditions enter): z3 shows that the re-based roving blocks equal the global observability rows in the FIRST setup's "
                   "basis (independent of T_k), that the global matrix is interleaved block by block in the order references, roving of "
                   "setup 1, 2, ..., that T_0 A_est == A T_0 and C_est == C_global T_0 (pinv and the QR idiom in closed normal-equation "
                   "form).",
    "bounds": {"quick": {"setups": 2, "references": 1, "roving": "1..2 per setup", "block rows": "2", "order": 2, "split": "channels <= 5"},
               "thorough": {"setups": "2..3", "references": "1..2", "roving": "1..2", "block rows": "2 (3 block rows were not decided within 15 min and are outside)", "split": "channels <= 6"}},
    "stubs": ["ssi.build_hank (C12)", "np.linalg.svd returns the prescribed factors Obs_k = O_k T_k (A-svd)", "np.linalg.pinv / QR idiom: normal "
              "equations in adjugate form"],
    "assumptions": ["reference observability blocks have full column rank (divisor side conditions)", "float identification end-to-end and "
                    "orders > 2 are outside the claim"],
}


def jobs(tier):
    out = []
    q = tier == "quick"
    for nch in range(2, (5 if q else 6) + 1):
        out.append({"ob": "O1", "cfg": {"nch": nch}})
    cfgs = [(1, (1, 1), 2), (1, (2, 1), 2)] if q else [(1, (1, 1), 2), (1, (2, 1), 2), (2, (1, 1), 2), (1, (1, 2, 1), 2)]   # 3 block rows: not decided within 15 min, left out
    for nref, nmov, br in cfgs:
        out.append({"ob": "O23", "cfg": {"nref": nref, "nmov": list(nmov), "br": br}})
    return out


def run(job, tier):
    return run_split(job["cfg"]) if job["ob"] == "O1" else run_multi(job["cfg"], tier)


# ------------------------------------------------------------------------------------------ O1 split
def run_split(cfg):
    from pyoma2.functions import gen
    W = World()
    tg = W.module(gen)
    tally = Tally(W, ["pre_multisetup"])
    ex = Explorer()
    nch = cfg["nch"]
    N = 3
    for k in range(1, min(nch - 1, 2) + 1):      # at least one roving channel (the property's range)
        for refs in itertools.permutations(range(nch), k):
            st = {}

            def body():
                d0 = fresh("d", (N, nch))
                d1 = fresh("e", (N, nch))
                st["d"] = [d0, d1]
                # frame condition: the caller's reference lists are arguments, not scratch space (setups hand the same lists in again
                # after every preprocessing step)
                st["reflist"] = [list(refs), list(refs)[::-1]]
                return tg.pre_multisetup([d0, d1], st["reflist"])

            for e, (kind, res) in ex.run_all(body):
                why, bad = [], []
                if kind == "exc":
                    why.append(f"raised {type(res).__name__}: {res}")
                else:
                    if st["reflist"] != [list(refs), list(refs)[::-1]]:
                        why.append(f"the caller's reference lists were modified: {[list(refs), list(refs)[::-1]]} -> {st['reflist']}")
                    for i, rl in enumerate([list(refs), list(refs)[::-1]]):
                        d = st["d"][i]
                        mov = [c for c in range(nch) if c not in rl]
                        R, M = res[i]["ref"], res[i]["mov"]
                        if np.shape(R) != (len(rl), N) or np.shape(M) != (len(mov), N):
                            why.append(f"shapes {np.shape(R)} {np.shape(M)} for refs {rl} of {nch} channels")
                            continue
                        for j, c in enumerate(rl):
                            bad += [differs(R[j, t], d[t, c]) for t in range(N)]
                        for j, c in enumerate(mov):
                            bad += [differs(M[j, t], d[t, c]) for t in range(N)]
                neg = z3.BoolVal(True) if why else (z3.Or(*bad) if bad else z3.BoolVal(False))
                tally.decide(e, neg, on_sat=lambda m, why=tuple(why), refs=refs: {"inputs": {"refs": list(refs), "nch": nch}, "reproduced":
                             replay_split(nch, list(refs))[0], "detail": "; ".join(why) + " | " + replay_split(nch, list(refs))[1],
                             "key": "pre_multisetup:split"}, label=f"nch={nch} refs={list(refs)}")
            if tally.stop:
                break
    return tally.result(ex)


def replay_split(nch, refs):
    from pyoma2.functions import gen
    d = np.arange(5 * nch, dtype=float).reshape(5, nch)
    reflist = [list(refs), list(refs)[::-1]]
    out = gen.pre_multisetup([d, d * 2], reflist)
    if reflist != [list(refs), list(refs)[::-1]]:
        return True, (f"pre_multisetup modified the caller's reference lists ({[list(refs), list(refs)[::-1]]} -> {reflist}): a second split with the "
                      f"same lists (every preprocessing step of MultiSetup_PreGER) returns the references in another order")
    for i, rl in enumerate([list(refs), list(refs)[::-1]]):
        dd = d * (i + 1)
        mov = [c for c in range(nch) if c not in rl]
        if not np.array_equal(out[i]["ref"], dd[:, rl].T) or not np.array_equal(out[i]["mov"], dd[:, mov].T.reshape(len(mov), -1)):
            return True, f"pre_multisetup: split for references {rl} of {nch} channels is not (listed references, ascending roving)"
    return False, "split as specified"


# ------------------------------------------------------------------------------------------ O23 multi-setup realisation
def run_multi(cfg, tier):
    from pyoma2.functions import ssi
    la = LA()
    W = World(overrides=make_world(la).over, per_module={"pyoma2.functions.ssi": {"build_hank": lambda *a, **k: (np.zeros((1, 1)), None)}})
    tm = W.module(ssi)
    tally = Tally(W, ["SSI_multi_setup"])
    ex = Explorer(timeout_ms=120000)
    nref, nmov, br = cfg["nref"], cfg["nmov"], cfg["br"]
    S = len(nmov)
    st = {}

    def body():
        a, b = fresh("a"), fresh("b")
        A = [[a, -b], [b, a]]
        Cref = [[fresh(f"cr{i}{j}") for j in range(2)] for i in range(nref)]
        Cmov = [[[fresh(f"cm{s}_{i}{j}") for j in range(2)] for i in range(nmov[s])] for s in range(S)]
        Ts = [[[fresh(f"t{s}_{i}{j}") for j in range(2)] for i in range(2)] for s in range(S)]
        la.svd_out[:] = []
        for s in range(S):
            Ck = Cref + Cmov[s]                      # setup's channel order: references first, then its roving sensors
            Ok = observability(A, Ck, br + 1)
            la.svd_out.append((SymArray(np.array(mm(Ok, Ts[s]), dtype=object)), SymArray(np.array([lift(1.0), lift(1.0)], dtype=object))))
            Explorer.cur.assume(Ts[s][0][0].v * Ts[s][1][1].v - Ts[s][0][1].v * Ts[s][1][0].v != 0)
        st.update(A=A, Cref=Cref, Cmov=Cmov, Ts=Ts)
        Y = [{"ref": np.zeros((nref, 4)), "mov": np.zeros((nmov[s], 4))} for s in range(S)]
        return tm.SSI_multi_setup(Y, 10.0, br, 2, method_hank="cov_mm", step=1)

    for e, (kind, res) in ex.run_all(body):
        A, Cref, Cmov, Ts = st["A"], st["Cref"], st["Cmov"], st["Ts"]
        if kind == "exc":
            tally.decide(e, z3.BoolVal(True), on_sat=lambda m: cexm(cfg, f"raised {type(res).__name__}: {res}"), with_side=False)
            continue
        Obs_all, Al, Cl = res
        Cg = Cref + [row for s in range(S) for row in Cmov[s]]        # references, then roving of setup 1, 2, ...
        ndof = len(Cg)
        Og = observability(A, Cg, br)
        want = mm(Og, Ts[0])
        why, negs = [], []
        if np.shape(Obs_all) != (ndof * br, 2) or len(Al) != 3 or np.shape(Al[2]) != (2, 2) or np.shape(Cl[2]) != (ndof, 2):
            why.append(f"shapes Obs {np.shape(Obs_all)} A {[np.shape(x) for x in Al]} C {[np.shape(x) for x in Cl]}")
        else:
            for i in range(ndof * br):
                for j in range(2):
                    negs.append(differs(Obs_all[i, j], want[i][j]))
            # the global shift-invariance solve IS the least-squares solve of C01/O2 on the global matrix: the state matrix is
            # the normal-equation solution of (Obs_all without the last block row) -> (Obs_all without the first), the output
            # matrix its first block row.  With Obs_all == O_global*T_0 (above) C01/O2 gives T_0 A_est == A T_0.
            from props.c01 import normal_solve
            Oa = np.asarray(Obs_all, dtype=object)
            X = normal_solve(Oa[: Oa.shape[0] - ndof, :], Oa[ndof:, :])
            for i in range(2):
                for j in range(2):
                    negs.append(differs(Al[2][i, j], X[i, j]))
            for i in range(ndof):
                for j in range(2):
                    negs.append(differs(Cl[2][i, j], Oa[i, j]))
                negs.append(differs(Cl[1][i, 0], Oa[i, 0]))
        if why:
            tally.decide(e, z3.BoolVal(True), on_sat=lambda m, why=tuple(why): cexm(cfg, "; ".join(why)), with_side=False)
            continue
        for k, neg in enumerate(negs):
            sneg = z3.simplify(neg)
            if z3.is_false(sneg):
                tally.obligations += 1
                tally.discharged += 1
                tally.reach = True
                continue
            # hints: a failing polynomial identity fails at almost every point - a cheap substitution search finds the model
            # before the non-linear engine is asked (which can use its whole budget on satisfiable instances)
            tally.decide(e, sneg, on_sat=lambda m: cexm(cfg, None), label=f"multi-setup nref={nref} nmov={nmov} br={br} [{k}]", timeout_ms=60000,
                         hints=True)
            if tally.stop:
                break
    return tally.result(ex)


def cexm(cfg, note):
    v, d = replay_multi(cfg)
    return {"inputs": {}, "reproduced": v, "detail": (note + " | " if note else "") + d, "key": "SSI_multi_setup:global-system"}


def replay_multi(cfg):
    """real SSI_multi_setup on noise-free free decays of one global order-2 system seen by each setup with its own amplitude and
    initial condition: order-2 eigenvalues and global shape (MAC) recovered"""
    from pyoma2.functions import gen, ssi
    nref, nmov, br = cfg["nref"], cfg["nmov"], max(cfg["br"], 4)
    S = len(nmov)
    rng = np.random.RandomState(17)
    rho, th = 0.985, 0.42
    A = rho * np.array([[np.cos(th), -np.sin(th)], [np.sin(th), np.cos(th)]])
    Cref = rng.randn(nref, 2)
    Cmov = [rng.randn(n, 2) for n in nmov]
    N = 400
    Y = []
    for s in range(S):
        x = rng.randn(2) * (10.0 ** (-4 * s if len(nmov) == 2 else -2 * s))      # per-setup amplitudes 1, 1e-4 (two setups) or 1, 1e-2, 1e-4 (any gain is in the property's quantifier)
        X = np.empty((2, N))
        for t in range(N):
            X[:, t] = x
            x = A @ x
        Y.append({"ref": Cref @ X, "mov": Cmov[s] @ X})
    try:
        Obs, Al, Cl = ssi.SSI_multi_setup(Y, 10.0, br, 2, method_hank="cov_mm")
    except Exception as e:  # noqa: BLE001
        return True, f"SSI_multi_setup raised {type(e).__name__}: {e}"
    ev = np.sort_complex(np.linalg.eigvals(Al[2]))
    ev0 = np.sort_complex(np.linalg.eigvals(A))
    if not np.allclose(ev, ev0, rtol=1e-6, atol=1e-8):
        return True, f"multi-setup order-2 eigenvalues {ev} != global system's {ev0}"
    Cg = np.vstack([Cref] + Cmov)
    w, V = np.linalg.eig(Al[2])
    w0, V0 = np.linalg.eig(A)
    k0 = int(np.argmin(np.abs(w0 - w[0])))
    mac = gen.MAC(Cl[2] @ V[:, 0], Cg @ V0[:, k0])
    if abs(mac - 1) > 1e-6:
        return True, f"multi-setup global shape has MAC {mac:.6f} with the global system's (amplitudes differ by setup)"
    return False, "global system recovered"


def replay(ob, cfg, inputs):
    if ob == "O1":
        return replay_split(cfg["nch"], inputs.get("refs", [0]))
    return replay_multi(cfg)
