"""Translator validation for the symbolic NumPy layer (DESIGN §2.6).

For every lifted primitive (and a set of real pyOMA2 helper functions run through their twins) the operation is
executed on SYMBOLIC inputs; on every explored path the solver supplies a model of the path condition, the inputs
and the shim's result are evaluated under that model, and the result is compared with what NumPy (resp. the real,
un-twinned function) returns for those concrete inputs.  A mismatch means the encoding misrepresents the code.

    python -m symx.selftest            exit 0: all agree; exit 3: a primitive disagrees (harness error)
"""
import logging
import sys
import time

import numpy as np
import z3

from .arr import NPProxy, fresh
from .core import SB, SC, SV, Abort, Budget, Explorer, ShimGap, concretize

logging.disable(logging.CRITICAL)   # the real helper functions log at INFO/WARNING
NP = NPProxy()
MAXP = 60


def _conc(m, x):
    if isinstance(x, (tuple, list)):
        return type(x)(_conc(m, v) for v in x)
    if isinstance(x, (SV, SC, SB, np.ndarray)):
        return concretize(m, x)
    return x


def _same(a, b):
    if isinstance(a, (tuple, list)) or isinstance(b, (tuple, list)):
        return isinstance(a, (tuple, list)) and isinstance(b, (tuple, list)) and len(a) == len(b) and all(_same(x, y) for x, y in zip(a, b))
    a, b = np.asarray(a), np.asarray(b)
    if a.shape != b.shape:
        return False
    if a.dtype == bool or b.dtype == bool:
        return bool(np.array_equal(a.astype(bool), b.astype(bool)))
    try:
        return bool(np.allclose(a.astype(complex), b.astype(complex), rtol=1e-9, atol=1e-12, equal_nan=True))
    except (TypeError, ValueError):
        return bool(np.array_equal(a, b))


def differential(name, make, op, ref=None, assume=None, maxp=MAXP):
    """make() -> tuple of symbolic inputs; op(np_like, *inputs); ref defaults to op with the real numpy"""
    ex = Explorer(timeout_ms=10000, max_paths=maxp + 1)
    st = {}

    def body():
        ins = make()
        st["ins"] = ins
        if assume is not None:
            for c in assume(*ins):
                Explorer.cur.assume(c)
        return op(NP, *ins)

    n = ties = 0
    try:
        for e, (kind, res) in ex.run_all(body):
            r, m = e.query()
            if r != z3.sat:
                continue
            ins = _conc(m, st["ins"])
            # the model's rationals are rounded to floats: re-run the shim on exactly those floats (lifted as exact
            # constants), so that shim and NumPy see identical inputs even when the model sits on a comparison boundary
            err = _compare(name, op, ref, ins)
            if err:
                # exact arithmetic and float arithmetic may land on different sides of a comparison when the solver's
                # model sits on its boundary (models often do).  A genuine encoding error is not confined to a boundary:
                # it must persist when the inputs are moved off it.
                rng = np.random.RandomState(n)
                errs = [_compare(name, op, ref, _perturb(ins, rng)) for _ in range(5)]
                if any(errs):
                    return err + " | persists under perturbation: " + next(x for x in errs if x)
                ties += 1
            n += 1
            if n >= maxp:
                break
    except Budget:
        pass
    except ShimGap as g:
        return f"{name}: ShimGap {g}"
    if n == 0:
        return f"{name}: no feasible path explored"
    return None


def _perturb(ins, rng):
    out = []
    for i in ins:
        if isinstance(i, np.ndarray) and i.dtype.kind in "fc":
            out.append(i * (1 + 1e-5 * rng.uniform(-1, 1, i.shape)))
        elif isinstance(i, (float, np.floating)):
            out.append(float(i) * (1 + 1e-5 * rng.uniform(-1, 1)))
        else:
            out.append(i)
    return tuple(out)


def _compare(name, op, ref, ins):
    kind, res, m = _rerun_const(op, ins)
    with np.errstate(all="ignore"):
        try:
            want = (ref or op)(np, *[np.array(i) if isinstance(i, np.ndarray) else i for i in ins])
            werr = None
        except Exception as x:  # noqa: BLE001
            want, werr = None, type(x).__name__
    if kind == "exc":
        if werr is None:
            return f"{name}: shim raised {type(res).__name__} ({res}) where NumPy returns {want!r} for inputs {ins}"
        return None
    got = _conc(m, res)
    if werr is not None:
        return f"{name}: NumPy raises {werr} where the shim returns {got!r} for inputs {ins}"
    if not _same(got, want):
        return f"{name}: shim {got!r} != numpy {want!r} for inputs {ins}"
    return None


def _lift_const(x):
    from .arr import const_array
    from .core import lift
    if isinstance(x, np.ndarray):
        return const_array(x)
    if isinstance(x, (float, complex, np.floating, np.complexfloating)):
        return lift(x)
    return x


class _NoModel:
    def eval(self, t, model_completion=True):
        return z3.simplify(t)


def _rerun_const(op, ins):
    ex = Explorer(timeout_ms=10000, max_paths=4)
    out = None
    for e, (kind, res) in ex.run_all(lambda: op(NP, *[_lift_const(i) for i in ins])):
        r, m = e.query()
        out = (kind, res, m if m is not None else _NoModel())
        break
    if out is None:
        raise Abort("constant re-run infeasible")
    return out


def R(name, shape, nan=False):
    return lambda: (fresh(name, shape, nan=nan),)


def R2(shape, nan=False):
    return lambda: (fresh("x", shape, nan=nan), fresh("y", shape, nan=nan))


def Cx(shape):
    return lambda: (fresh("z", shape, complex_=True),)


def _notallnan(x):
    return [z3.Or(*[z3.Not(v.nan) for v in np.asarray(x, dtype=object).ravel()])]


CASES = [
    ("sum", R("x", (2, 3)), lambda N, x: N.sum(x, axis=0)),
    ("sum-all", R("x", (2, 2), True), lambda N, x: N.sum(x)),
    ("mean-axis", R("x", (3, 2)), lambda N, x: N.mean(x, axis=0)),
    ("var", R("x", (3,)), lambda N, x: N.var(x)),
    ("cov", R("x", (2, 3)), lambda N, x: N.cov(x)),
    ("max", R("x", (3,)), lambda N, x: N.max(x)),
    ("min-axis", R("x", (2, 2)), lambda N, x: N.min(x, axis=1)),
    ("argmax", R("x", (3,)), lambda N, x: N.argmax(x)),
    ("argmin-nan", R("x", (3,), True), lambda N, x: N.argmin(x)),
    ("nanargmin", R("x", (3,), True), lambda N, x: N.nanargmin(x), None, lambda x: _notallnan(x)),
    ("nanmax", R("x", (3,), True), lambda N, x: N.nanmax(x), None, lambda x: _notallnan(x)),
    ("argsort", R("x", (3,)), lambda N, x: N.argsort(x, kind="stable")),
    ("sort", R("x", (3,)), lambda N, x: N.sort(x)),
    ("where3", R2((3,)), lambda N, x, y: N.where(x > y, x, y)),
    ("maximum", R2((2,), True), lambda N, x, y: N.maximum(x, y)),
    ("minimum-const", R("x", (3,)), lambda N, x: N.minimum(N.abs(x), 1.0)),
    ("isclose", R2((2,)), lambda N, x, y: N.isclose(x, y, rtol=0.05)),
    ("allclose", R2((2,)), lambda N, x, y: N.allclose(x, y, rtol=0.5)),
    ("compare-nan", R2((2,), True), lambda N, x, y: (x < y, x >= y, x == y, x != y)),
    ("logical", R2((2,)), lambda N, x, y: N.logical_and(x > 0, N.logical_not(y > 0))),
    ("any-all", R("x", (3,)), lambda N, x: (N.any(x > 0), N.all(x > 0))),
    ("count_nonzero", R("x", (3,)), lambda N, x: N.count_nonzero(x > 0)),
    ("nan_to_num", R("x", (3,), True), lambda N, x: N.nan_to_num(x)),
    ("isnan", R("x", (3,), True), lambda N, x: N.isnan(x)),
    ("sign-abs", R("x", (3,)), lambda N, x: (N.sign(x), N.abs(x))),
    ("divide", R2((2,)), lambda N, x, y: x / y, None, lambda x, y: [v.v != 0 for v in np.asarray(y, dtype=object).ravel()]),
    ("power2", R("x", (2,)), lambda N, x: x ** 2),
    ("dot", lambda: (fresh("a", (2, 3)), fresh("b", (3, 2))), lambda N, a, b: N.dot(a, b)),
    ("matmul-T", lambda: (fresh("a", (2, 3)),), lambda N, a: a @ a.T),
    ("complex-arith", lambda: (fresh("z", (2,), complex_=True), fresh("w", (2,), complex_=True)),
     lambda N, z, w: (z * w, N.conj(z) * w, N.real(z), N.imag(w), N.abs(z) ** 2),
     None, None),
    ("complex-div", lambda: (fresh("z", (2,), complex_=True), fresh("w", (2,), complex_=True)), lambda N, z, w: z / w, None,
     lambda z, w: [z3.Or(v.re != 0, v.im != 0) for v in np.asarray(w, dtype=object).ravel()]),
    ("vdot", lambda: (fresh("z", (3,), complex_=True), fresh("w", (3,), complex_=True)), lambda N, z, w: N.vdot(z, w)),
    ("norm2", R("x", (3,)), lambda N, x: N.linalg.norm(x) ** 2, lambda N, x: np.linalg.norm(x) ** 2),
    ("masked-assign", R("x", (3,)), lambda N, x: _masked(N, x)),
    ("bool-index", R("x", (3,)), lambda N, x: x[x > 0]),
    ("structure", R("x", (2, 3)), lambda N, x: N.hstack([x, x[:, ::-1]]).reshape(3, 4).T[1:, :2]),
    ("delete-flatten", R("x", (2, 3)), lambda N, x: N.delete(x.flatten(order="F"), [1, 3])),
    ("int-trunc", R("x", ()), lambda N, x: int(x), None, lambda x: [x.v > -5, x.v < 5]),
    ("unique", R("x", (3,)), lambda N, x: N.unique(x)),
    ("array_equal", R2((2,)), lambda N, x, y: N.array_equal(x, y)),
    ("std-axis", R("x", (2, 2)), lambda N, x: N.std(x, axis=0) ** 2, lambda N, x: np.std(x, axis=0) ** 2),
]


def _masked(N, x):
    y = x.copy()
    y[y < 0] = N.nan
    return y


# ------------------------------------------------------------------ real pyOMA2 helpers: twin vs real function
def repo_cases():
    from pyoma2.functions import gen

    from .twin import World
    W = World()
    tg = W.module(gen)
    out = []

    def pair(name, make, call, assume=None, maxp=40):
        out.append((name, make, lambda N, *a: call(tg if N is NP else gen, *a), None, assume, maxp))

    pair("gen.MAC", lambda: (fresh("p", (2,), complex_=True), fresh("q", (2,), complex_=True)), lambda g, p, q: g.MAC(p, q),
         lambda p, q: [z3.Or(*[z3.Or(v.re != 0, v.im != 0) for v in p]), z3.Or(*[z3.Or(v.re != 0, v.im != 0) for v in q])])
    pair("gen.MCF", lambda: (fresh("p", (3,), complex_=True),), lambda g, p: g.MCF(p),
         lambda p: [z3.Or(*[z3.Or(v.re != 0, v.im != 0) for v in p])])
    pair("gen.HC_damp", lambda: (fresh("xi", (2, 2), nan=True), fresh("lim")), lambda g, xi, lim: g.HC_damp(xi, lim),
         lambda xi, lim: [lim.v > 0])
    pair("gen.HC_cov", lambda: (fresh("c", (2, 2), nan=True), fresh("lim")), lambda g, c, lim: g.HC_cov(c, lim),
         lambda c, lim: [lim.v > 0])
    pair("gen.HC_conj", lambda: (fresh("L", (2, 2), complex_=True),), lambda g, L: g.HC_conj(L))
    pair("gen.applymask", lambda: (fresh("a", (2, 2), nan=True), fresh("m", (2, 2))),
         lambda g, a, m: g.applymask([a, None], (m > 0).astype(int), 1) if False else g.applymask([a.copy(), None], (m > 0).astype(int), 1))
    pair("gen.SC_apply", lambda: (fresh("Fn", (2, 2), nan=True), fresh("Xi", (2, 2)), fresh("Ph", (2, 2, 1), complex_=True)),
         lambda g, Fn, Xi, Ph: g.SC_apply(Fn, Xi, Ph, 0, 1, 1, 0.0513, 0.117, 0.093),
         lambda Fn, Xi, Ph: [v.v > 0 for v in np.asarray(Fn, dtype=object).ravel()] + [v.v > 0 for v in np.asarray(Xi, dtype=object).ravel()]
         + [z3.Or(v.re != 0, v.im != 0) for v in np.asarray(Ph, dtype=object).ravel()], 30)
    pair("gen.merge_mode_shapes", lambda: (fresh("A", (3, 1)), fresh("B", (3, 1))),
         lambda g, A, B: g.merge_mode_shapes([A, B], [[0], [1]]),
         lambda A, B: [A[0, 0].v != 0, B[1, 0].v != 0])
    pair("gen.pre_multisetup", lambda: (fresh("d1", (4, 3)), fresh("d2", (4, 2))),
         lambda g, d1, d2: [sorted(x.items()) for x in g.pre_multisetup([d1, d2], [[2, 0], [1]])])
    pair("gen.MSF", lambda: (fresh("a", (3,)), fresh("b", (3,))), lambda g, a, b: g.MSF(a, b),
         lambda a, b: [z3.Or(*[v.v != 0 for v in a]), z3.Or(*[v.v != 0 for v in b]), sum(v.v * v.v for v in b) > 0])
    try:
        from pyoma2.functions import ssi
        ts = W.module(ssi)

        def mpe(mod, f, Fn, Xi, Ph, rt):
            r = mod.SSI_mpe([f], Fn, Xi, Ph, 1, rtol=rt)
            return [np.asarray(x) if x is not None and not np.isscalar(x) else x for x in r[:4]]
        out.append(("ssi.SSI_mpe", lambda: (fresh("f"), fresh("Fn", (2, 2), nan=True), fresh("Xi", (2, 2)), fresh("Ph", (2, 2, 1), complex_=True), fresh("rt")),
                    lambda N, *a: mpe(ts if N is NP else ssi, *a), None,
                    lambda f, Fn, Xi, Ph, rt: [f.v > 0, rt.v > 0, rt.v < 1, z3.Not(Fn[0, 1].nan)] + [v.v > 0 for v in np.asarray(Fn, dtype=object).ravel()], 30))
    except Exception:  # noqa: BLE001
        pass
    return out


def main():
    t0 = time.time()
    bad = []
    cases = [c + (None,) * (6 - len(c)) for c in CASES]
    try:
        cases += repo_cases()
    except Exception as e:  # noqa: BLE001
        bad.append(f"repo cases could not be built: {type(e).__name__}: {e}")
    for name, make, op, ref, assume, maxp in cases:
        try:
            err = differential(name, make, op, ref, assume, maxp or MAXP)
        except (Abort, ShimGap) as e:
            err = f"{name}: {type(e).__name__} {e}"
        except Exception as e:  # noqa: BLE001
            err = f"{name}: selftest crashed: {type(e).__name__}: {e}"
        print(("FAIL " + err) if err else f"ok   {name}", flush=True)
        if err:
            bad.append(err)
    print(f"[selftest] {len(cases)} primitives/functions, {len(bad)} disagreements, {time.time() - t0:.1f}s")
    return 3 if bad else 0


if __name__ == "__main__":
    sys.exit(main())
