"""symx.twin — execute the *real* code objects of /repo under rebound globals (DESIGN §2.1).

A World twins whole pyoma2 modules: every function defined in a pyoma2 module is re-created from
its own code object (`f.__code__`) over a copy of the module globals in which `np` is the proxy,
kernels are contract stubs, and references to other pyoma2 modules/functions/classes point at their
twins.  Nothing is translated by hand; the code hash of every twinned function goes to the evidence.
"""
import hashlib
import inspect
import sys
import types

from .arr import NP

PKG = "pyoma2"


def code_hash(f):
    co = f.__code__
    h = hashlib.sha1()

    def feed(c):
        h.update(c.co_code)
        for k in c.co_consts:
            if isinstance(k, types.CodeType):
                feed(k)
            else:
                h.update(repr(k).encode())
        h.update(repr(c.co_names).encode())
    feed(co)
    return h.hexdigest()[:12]


class NullLogger:
    def __getattr__(self, k):
        return lambda *a, **kw: None


def _identity_iter(it, *a, **kw):
    return it


class World:
    def __init__(self, overrides=None, per_module=None, keep_real=()):
        """overrides: name -> value applied to every twinned module's globals (default: np proxy,
        logger, tqdm); per_module: {module_name: {name: value}}; keep_real: qualified names of functions/
        classes that must stay the real objects."""
        self.over = {"np": NP, "logger": NullLogger(), "tqdm": _identity_iter,
                     "trange": lambda *a, **kw: range(*a)}
        if overrides:
            self.over.update(overrides)
        self.per_module = per_module or {}
        self.keep_real = set(keep_real)
        self._g = {}      # module name -> twinned globals dict
        self._ns = {}     # module name -> namespace object
        self._fn = {}     # id(real function) -> twin
        self._cls = {}    # real class -> twin class
        self.encoded = {}  # qualname -> hash, filled when a twin function is *created*

    # -- modules
    def globals_of(self, modname):
        if modname in self._g:
            return self._g[modname]
        mod = sys.modules.get(modname)
        if mod is None:
            __import__(modname)
            mod = sys.modules[modname]
        g = dict(mod.__dict__)
        self._g[modname] = g
        for k, v in list(mod.__dict__.items()):
            g[k] = self.twin_value(v)
        g.update({k: v for k, v in self.over.items() if k in mod.__dict__})
        g.update(self.per_module.get(modname, {}))
        return g

    def module(self, mod):
        name = mod if isinstance(mod, str) else mod.__name__
        if name not in self._ns:
            g = self._g.get(name)
            if g is None:
                # reserve the dict first so that cyclic imports see the same object
                self._ns[name] = NS({})
                g = self.globals_of(name)
                object.__setattr__(self._ns[name], "_g", g)
            else:
                self._ns[name] = NS(g)
        return self._ns[name]

    def twin_value(self, v):
        if isinstance(v, types.ModuleType) and v.__name__.startswith(PKG):
            return self.module(v)
        if isinstance(v, types.FunctionType) and (v.__module__ or "").startswith(PKG):
            return self.function(v)
        if inspect.isclass(v) and (v.__module__ or "").startswith(PKG):
            return self.cls(v)
        return v

    # -- functions
    def function(self, f):
        if f.__module__ + "." + f.__qualname__ in self.keep_real:
            return f
        if id(f) in self._fn:
            return self._fn[id(f)]
        g = self.globals_of(f.__module__)
        t = types.FunctionType(f.__code__, g, f.__name__, f.__defaults__, f.__closure__)
        t.__kwdefaults__ = f.__kwdefaults__
        t.__qualname__ = f.__qualname__
        t.__dict__.update(f.__dict__)
        t.__wrapped_real__ = f
        self._fn[id(f)] = t
        self.encoded[f.__module__ + "." + f.__qualname__] = code_hash(f)
        return t

    # -- classes: pydantic models stay real (they are data holders); algorithm/setup/support classes
    # are re-created with twinned methods
    def cls(self, c):
        if c in self._cls:
            return self._cls[c]
        q = c.__module__ + "." + c.__qualname__
        try:
            from pydantic import BaseModel
            is_model = issubclass(c, BaseModel)
        except Exception:
            is_model = False
        if is_model or q in self.keep_real or issubclass(c, BaseException):
            self._cls[c] = c
            return c
        self._cls[c] = c  # placeholder against cycles
        bases = tuple(self.cls(b) if (b.__module__ or "").startswith(PKG) else b for b in c.__bases__)
        ns = {}
        for k, v in c.__dict__.items():
            if k in ("__dict__", "__weakref__"):
                continue
            if isinstance(v, types.FunctionType):
                ns[k] = self.function(v)
            elif isinstance(v, staticmethod) and isinstance(v.__func__, types.FunctionType):
                ns[k] = staticmethod(self.function(v.__func__))
            elif isinstance(v, classmethod) and isinstance(v.__func__, types.FunctionType):
                ns[k] = classmethod(self.function(v.__func__))
            elif isinstance(v, property):
                ns[k] = property(*(self.function(x) if isinstance(x, types.FunctionType) else x
                                   for x in (v.fget, v.fset, v.fdel)))
            else:
                ns[k] = v
        try:
            t = types.new_class(c.__name__, tuple(b for b in bases), {},
                                lambda d: d.update(ns))
        except TypeError:
            # generic aliases in bases (BaseAlgorithm[...] evaluates to the class itself)
            t = type(c.__name__, bases, ns)
        t.__module__ = c.__module__
        t.__qualname__ = c.__qualname__
        t.__real__ = c
        self._cls[c] = t
        # zero-argument super() reads the `__class__` closure cell: point it at the twin class
        for k, v in list(t.__dict__.items()):
            fn = v.__func__ if isinstance(v, (staticmethod, classmethod)) else v
            if isinstance(fn, types.FunctionType) and "__class__" in fn.__code__.co_freevars and fn.__closure__:
                cells = list(fn.__closure__)
                cells[fn.__code__.co_freevars.index("__class__")] = types.CellType(t)
                nf = types.FunctionType(fn.__code__, fn.__globals__, fn.__name__, fn.__defaults__, tuple(cells))
                nf.__kwdefaults__ = fn.__kwdefaults__
                nf.__qualname__ = fn.__qualname__
                nf.__dict__.update(fn.__dict__)
                if isinstance(v, staticmethod):
                    nf = staticmethod(nf)
                elif isinstance(v, classmethod):
                    nf = classmethod(nf)
                setattr(t, k, nf)
        # patch globals that captured the placeholder
        for g in self._g.values():
            for k, v in list(g.items()):
                if v is c and not (k in self.over):
                    g[k] = t
        return t

    def carrier(self, c, **attrs):
        """instance of the twinned class without running __init__"""
        t = self.cls(c)
        o = object.__new__(t)
        for k, v in attrs.items():
            setattr(o, k, v)
        return o

    def encoded_list(self, only=None):
        items = sorted(self.encoded.items())
        if only:
            items = [(k, v) for k, v in items if any(s in k for s in only)]
        return [f"{k}@{v}" for k, v in items]


class NS:
    """namespace view of a twinned module's globals dict (later patches are visible)"""

    def __init__(self, g):
        object.__setattr__(self, "_g", g)

    def __getattr__(self, k):
        try:
            return self._g[k]
        except KeyError:
            raise AttributeError(k)

    def __setattr__(self, k, v):
        self._g[k] = v


def rebind(f, **g):
    """single-function twin with explicit global overrides (used for small probes)"""
    gl = dict(f.__globals__)
    gl.update(g)
    t = types.FunctionType(f.__code__, gl, f.__name__, f.__defaults__, f.__closure__)
    t.__kwdefaults__ = f.__kwdefaults__
    return t
