"""symx.core — symbolic scalars and the path explorer.

Value model (DESIGN §2.2): reals with a NaN flag (SV), complex pairs (SC), symbolic booleans (SB).
Python control flow on symbolic booleans asks the Explorer, which forks per feasible branch.
"""
import sys
import time
from fractions import Fraction

import numpy as np
import z3


sys.set_int_max_str_digits(0)


class Abort(BaseException):
    """infeasible path"""


class ShimGap(BaseException):
    """an operation the shim does not model; BaseException so `except Exception` in the code under
    analysis cannot swallow it"""


class Skip(Abort):
    """path outside this job's partition of the decision tree"""


class Budget(BaseException):
    """exploration budget exhausted"""


# ------------------------------------------------------------------------------- explorer
class Explorer:
    cur = None

    def __init__(self, timeout_ms=10000, max_paths=200000, max_seconds=None, split_atoms=False, feas_timeout_ms=None, push_feas=False):
        self.solver = z3.Solver()
        self.timeout_ms = timeout_ms
        self.solver.set("timeout", timeout_ms)
        self.prefix = []
        self.trace = []
        self.pc = []
        self.defs = []   # definitional constraints of auxiliary symbols (always true), per path
        self.side = []   # side conditions (e.g. divisor != 0) met on the path
        self.facts = []  # contract facts of stubs (always true); asserted in end-of-path queries only
        self.nq = 0
        self.tq = 0.0
        self.npaths = 0
        self.unknown_feas = 0
        self.max_paths = max_paths
        self.max_seconds = max_seconds
        self.t0 = time.time()
        self._fresh = 0
        self.notes = {}
        self.split_atoms = split_atoms
        self.push_feas = push_feas   # branch feasibility by push/add/check/pop (strong on non-linear arithmetic, slower) instead
        #                              of check(assumption) (fast; gives up early on non-linear conditions -> both branches kept)
        self.feas_timeout_ms = feas_timeout_ms or timeout_ms
        self.halt = False     # set by the harness once a replay-confirmed counterexample exists: stop exploring
        self.part = None      # (index, nparts, depth): explore only paths whose first `depth` decisions hash to index
        self.known = {}       # atom id -> decision on the current path (split_atoms mode)
        self.lazy = {}        # term id of an auxiliary symbol (uf_sqrt application) -> its defining constraint
        self.active = set()   # lazy definitions already asserted on the current path

    # -- solver access
    def check(self, *extra):
        """feasibility of the asserted context plus `extra`.  push/add/check/pop, NOT check(assumptions): with a
        non-literal assumption z3 falls back to a core that is very weak on non-linear arithmetic (a degree-4 inequality
        went from `unknown` after 10 s to `sat` in 1 s)"""
        t = time.time()
        self.nq += 1
        if extra and not self.push_feas:
            r = self.solver.check(*extra)
        elif extra:
            self.solver.push()
            try:
                self.solver.add(*extra)
                r = self.solver.check()
            finally:
                self.solver.pop()
        else:
            r = self.solver.check()
        self.tq += time.time() - t
        return r

    def fresh_name(self, stem):
        self._fresh += 1
        return f"{stem}!{self._fresh}"

    def add_def(self, c):
        self.defs.append(c)
        self.solver.add(c)

    def add_fact(self, c):
        """a fact guaranteed by a stub's contract: kept out of the branch-feasibility solver (sound: more paths, never
        fewer) and asserted in every end-of-path query"""
        self.facts.append(c)

    def add_lazy_def(self, term, c):
        """definition asserted only once `term` occurs in a formula sent to the solver"""
        self.lazy[term.get_id()] = (term, c)

    def _activate(self, *exprs):
        if not self.lazy:
            return
        stack = [x for x in exprs if isinstance(x, z3.ExprRef)]
        seen = set()
        while stack:
            x = stack.pop()
            i = x.get_id()
            if i in seen:
                continue
            seen.add(i)
            if i in self.lazy and i not in self.active:
                self.active.add(i)
                c = self.lazy[i][1]
                self.defs.append(c)
                self.solver.add(c)
                stack.append(c)
            stack.extend(x.children())

    def add_side(self, c):
        c = z3.simplify(c)
        if z3.is_true(c):
            return
        # side conditions are NOT asserted into the feasibility solver (they are high-degree disequalities that
        # would make every branch check non-linear); exploring without them is sound (more paths, never fewer).
        # They are asserted in every end-of-path query.
        self.side.append(c)

    def assume(self, c):
        """harness-level assumption added on the current path"""
        self._activate(c)
        self.solver.add(c)
        self.pc.append(c)

    def decide(self, cond):
        cond = z3.simplify(cond)
        if z3.is_true(cond):
            return True
        if z3.is_false(cond):
            return False
        if self.split_atoms:
            return self._decide_struct(cond)
        return self._decide_atom(cond)

    def _decide_struct(self, cond):
        """branch on the atoms of a boolean combination (short-circuit), reusing atoms already decided on this
        path; keeps every solver call small (DESIGN §2.4)"""
        if z3.is_true(cond):
            return True
        if z3.is_false(cond):
            return False
        if z3.is_not(cond):
            return not self._decide_struct(cond.arg(0))
        if z3.is_and(cond):
            for c in cond.children():
                if not self._decide_struct(c):
                    return False
            return True
        if z3.is_or(cond):
            for c in cond.children():
                if self._decide_struct(c):
                    return True
            return False
        if z3.is_implies(cond):
            return (not self._decide_struct(cond.arg(0))) or self._decide_struct(cond.arg(1))
        k = cond.get_id()
        if k in self.known:
            return self.known[k]
        r = self._decide_atom(cond)
        self.known[k] = r
        return r

    def _decide_atom(self, cond):
        self._activate(cond)
        i = len(self.trace)
        if i < len(self.prefix):
            taken = self.prefix[i]
            self.trace.append((cond, taken, False))
        else:
            if self.feas_timeout_ms != self.timeout_ms:
                self.solver.set("timeout", self.feas_timeout_ms)
            rt = self.check(cond)
            rf = self.check(z3.Not(cond))
            if self.feas_timeout_ms != self.timeout_ms:
                self.solver.set("timeout", self.timeout_ms)
            if rt == z3.unknown or rf == z3.unknown:
                self.unknown_feas += 1   # kept as feasible: more paths, never fewer
            ft, ff = rt != z3.unsat, rf != z3.unsat
            if not ft and not ff:
                raise Abort()
            taken = ft
            self.trace.append((cond, taken, ft and ff))
        c = cond if taken else z3.Not(cond)
        self.solver.add(c)
        self.pc.append(c)
        if self.part is not None and len(self.trace) == self.part[2]:
            bits = 0
            for _, t, _ in self.trace:
                bits = bits * 2 + (1 if t else 0)
            if (bits * 2654435761 >> 7) % self.part[1] != self.part[0]:
                raise Skip()
        return taken

    def choose(self, n, label="choice"):
        """symbolic-free finite choice 0..n-1 explored exhaustively (used for enumerated kinds)"""
        v = z3.Int(self.fresh_name(label))
        self.add_def(z3.And(v >= 0, v < n))
        for k in range(n - 1):
            if self.decide(v == k):
                return k
        return n - 1

    def run_all(self, fn, base=()):
        """yield (explorer-state, outcome) per feasible path; outcome = ('ok', value) | ('exc', exception)"""
        stack = [[]]
        while stack:
            if self.halt:
                return
            if self.npaths >= self.max_paths or (
                self.max_seconds and time.time() - self.t0 > self.max_seconds
            ):
                raise Budget(f"paths={self.npaths}")
            self.prefix = stack.pop()
            self.trace = []
            self.pc = list(base)
            self.defs = []
            self.side = []
            self.facts = []
            self.lazy = {}
            self.active = set()
            self.known = {}
            self._fresh = 0
            self.solver.reset()
            self.solver.set("timeout", self.timeout_ms)
            for b in base:
                self.solver.add(b)
            Explorer.cur = self
            res = None
            try:
                try:
                    res = ("ok", fn())
                except Abort:
                    res = None
                except Exception as e:  # exception raised by the code under analysis on this path
                    res = ("exc", e)
                for i in range(len(self.prefix), len(self.trace)):
                    cond, taken, both = self.trace[i]
                    if both:
                        stack.append([t for _, t, _ in self.trace[:i]] + [not taken])
                if res is not None and not (self.part is not None and len(self.trace) < self.part[2]
                                            and self.part[0] != 0):
                    # paths shorter than the partition depth belong to part 0
                    self.npaths += 1
                    yield self, res
            finally:
                Explorer.cur = None

    # -- queries at the end of a path (pc, defs and side conditions are already asserted)
    def query(self, *extra, timeout_ms=None, with_side=True):
        self.solver.push()
        try:
            if timeout_ms:
                self.solver.set("timeout", timeout_ms)
            before = set(self.active)
            sides = (self.side if with_side else []) + self.facts
            self._activate(*extra, *sides)
            for e in sides:
                self.solver.add(e)
            for e in extra:
                self.solver.add(e)
            r = self.check()
            m = self.solver.model() if r == z3.sat else None
            return r, m
        finally:
            self.solver.pop()
            # lazy definitions activated inside the push/pop frame are gone with it
            for i in self.active - before:
                self.defs.remove(self.lazy[i][1])
            self.active = before
            if timeout_ms:
                self.solver.set("timeout", self.timeout_ms)


def cur():
    e = Explorer.cur
    if e is None:
        raise RuntimeError("symbolic decision outside of an Explorer run")
    return e


# ------------------------------------------------------------------------------- scalars
def _ratval(x):
    fr = Fraction(float(x))
    return z3.Q(fr.numerator, fr.denominator)


FALSE = z3.BoolVal(False)
TRUE = z3.BoolVal(True)


def _or(*a):
    a = [x for x in a if not z3.is_false(x)]
    if not a:
        return FALSE
    if any(z3.is_true(x) for x in a):
        return TRUE
    return a[0] if len(a) == 1 else z3.Or(*a)


def lift(x):
    """anything scalar-like -> SV or SC"""
    if isinstance(x, (SV, SC)):
        return x
    if isinstance(x, SB):
        return SV(z3.If(x.b, z3.RealVal(1), z3.RealVal(0)), nn=True)
    if isinstance(x, (bool, np.bool_)):
        return SV(z3.RealVal(int(x)), nn=True)
    if isinstance(x, (int, np.integer)):
        return SV(z3.RealVal(int(x)), nn=int(x) >= 0)
    if isinstance(x, (float, np.floating)):
        if x != x:
            return SV(z3.RealVal(0), TRUE)
        if x in (float("inf"), float("-inf")):
            raise ShimGap("infinite constant")
        return SV(_ratval(x), nn=float(x) >= 0)
    if isinstance(x, (complex, np.complexfloating)):
        if x != x:
            return SC(z3.RealVal(0), z3.RealVal(0), TRUE)
        return SC(_ratval(x.real), _ratval(x.imag))
    if isinstance(x, np.ndarray) and x.ndim == 0:
        return lift(x[()])
    if isinstance(x, z3.ArithRef):
        return SV(x)
    if isinstance(x, Fraction):
        return SV(z3.Q(x.numerator, x.denominator), nn=x >= 0)
    raise ShimGap("lift " + str(type(x)))


def is_sym(x):
    return isinstance(x, (SV, SC, SB))


class SB:
    """symbolic boolean"""

    __array_priority__ = 1000

    def __init__(self, b):
        self.b = b

    def __bool__(self):
        return cur().decide(self.b)

    def __and__(self, o):
        if isinstance(o, np.ndarray):
            return NotImplemented
        return SB(z3.And(self.b, tob(o)))

    __rand__ = __and__

    def __or__(self, o):
        if isinstance(o, np.ndarray):
            return NotImplemented
        return SB(z3.Or(self.b, tob(o)))

    __ror__ = __or__

    def __xor__(self, o):
        if isinstance(o, np.ndarray):
            return NotImplemented
        return SB(z3.Xor(self.b, tob(o)))

    __rxor__ = __xor__

    def __invert__(self):
        return SB(z3.Not(self.b))

    def logical_not(self):
        return SB(z3.Not(self.b))

    def __int__(self):          # int(cond) forks like `if cond`
        return int(bool(self))

    __index__ = __int__

    def __float__(self):
        return float(bool(self))

    def any(self, *a, **k):     # np.bool_ protocol
        return self

    def all(self, *a, **k):
        return self

    def astype(self, t):
        if t in (bool, np.bool_, "bool"):
            return self
        return lift(self)

    def __mul__(self, o):
        if isinstance(o, np.ndarray):
            return NotImplemented
        return lift(self) * o

    __rmul__ = __mul__

    def __add__(self, o):
        if isinstance(o, np.ndarray):
            return NotImplemented
        return lift(self) + o

    __radd__ = __add__

    def __eq__(self, o):
        if isinstance(o, np.ndarray):
            return NotImplemented
        if isinstance(o, (SB, bool, np.bool_)):
            return SB(self.b == tob(o))
        return lift(self) == o

    def __ne__(self, o):
        r = self.__eq__(o)
        return r if r is NotImplemented else ~r

    __hash__ = None

    def __repr__(self):
        return f"SB({self.b})"

    def __array_ufunc__(self, ufunc, method, *inputs, **kw):
        from . import arr
        return arr.scalar_ufunc(ufunc, method, *inputs, **kw)


def tob(o):
    if isinstance(o, SB):
        return o.b
    if isinstance(o, SV):
        return z3.Or(o.nan, o.v != 0) if not z3.is_false(o.nan) else o.v != 0
    if isinstance(o, z3.BoolRef):
        return o
    return z3.BoolVal(bool(o))


def _deq(d1, d2):
    if d1 is None or d2 is None:
        return d1 is None and d2 is None
    return z3.eq(d1, d2)


def _dmul(d1, d2):
    if d1 is None:
        return d2
    if d2 is None:
        return d1
    return d1 * d2


def sqof(x):
    """the square of an SV as a plain SV (uses the recorded square when there is one)"""
    if x.sq is not None:
        return SV(x.sq.v, x.sq.nan, d=x.sq.d, nn=True, dp=x.sq.dp)
    return SV(x.v * x.v, x.nan, d=None if x.d is None else x.d * x.d, nn=True, dp=True)


def _sq_mul(a, b):
    if a.sq is None and b.sq is None:
        return None
    x, y = sqof(a), sqof(b)
    return SV(x.v * y.v, _or(x.nan, y.nan), d=_dmul(x.d, y.d), nn=True, dp=x.dp and y.dp)


def _sq_div(a, b):
    if a.sq is None and b.sq is None:
        return None
    x, y = sqof(a), sqof(b)
    num = x.v if y.d is None else x.v * y.d
    return SV(num, _or(x.nan, y.nan), d=_dmul(x.d, y.v), nn=True, dp=x.dp and y.dp)


def _side_unless_nan(cond, *nans):
    fl = [n for n in nans if n is not None and not z3.is_false(n)]
    return z3.Or(cond, *fl) if fl else cond


# rounding abstraction (opt-in per harness): when set, real/real division by a symbolic divisor returns whatever the hook
# returns (e.g. a fresh symbol bounded only by what survives rounding) instead of the exact quotient
DIV_HOOK = None


class SV:
    """real number with a NaN flag, kept as a fraction v/d of polynomial z3 terms (d None = 1) so that
    equalities become inverse-free polynomial identities (DESIGN §2.2).  `sq` (optional SV) records that
    self is the non-negative square root of `sq`, so self*self and self**2 reduce syntactically."""

    __array_priority__ = 1000
    __slots__ = ("v", "nan", "sq", "d", "nn", "dp")

    def __init__(self, v, nan=None, sq=None, d=None, nn=False, dp=None):
        self.v = v
        self.nan = FALSE if nan is None else nan
        self.sq = sq
        self.d = d
        self.nn = nn                        # value known to be >= 0 (by construction or declared)
        self.dp = (d is None) if dp is None else dp   # denominator known to be > 0

    @property
    def z(self):
        """the value as one z3 term"""
        return self.v if self.d is None else self.v / self.d

    # ---- arithmetic
    def _lift2(self, o):
        if isinstance(o, np.ndarray):
            return None
        o = lift(o)
        if isinstance(o, SC):
            return None
        return o

    def __add__(self, o, sign=1):
        if isinstance(o, (complex, np.complexfloating)):
            return toc(self) + (lift(o) if sign == 1 else -lift(o))
        o = self._lift2(o)
        if o is None:
            return NotImplemented
        nan = _or(self.nan, o.nan)
        ov = o.v if sign == 1 else -o.v
        if _deq(self.d, o.d):
            return SV(self.v + ov, nan, d=self.d, nn=self.nn and o.nn and sign == 1, dp=self.dp)
        sd = self.d if self.d is not None else z3.RealVal(1)
        od = o.d if o.d is not None else z3.RealVal(1)
        return SV(self.v * od + ov * sd, nan, d=_dmul(self.d, o.d), nn=self.nn and o.nn and sign == 1,
                  dp=self.dp and o.dp)

    __radd__ = __add__

    def __sub__(self, o):
        return self.__add__(o, -1)

    def __rsub__(self, o):
        if isinstance(o, np.ndarray):
            return NotImplemented
        return lift(o) - self

    def __mul__(self, o):
        if isinstance(o, (complex, np.complexfloating)):
            return toc(self) * lift(o)        # a Python complex constant does not know SV: promote here
        o2 = self._lift2(o)
        if o2 is None:
            return NotImplemented
        if self.sq is not None and o2.sq is not None and (o2 is self or (z3.eq(o2.v, self.v) and _deq(o2.d, self.d))):
            return SV(self.sq.v, _or(self.nan, o2.nan), d=self.sq.d, nn=True, dp=self.sq.dp)
        same = o2 is self or (z3.eq(o2.v, self.v) and _deq(o2.d, self.d))
        return SV(self.v * o2.v, _or(self.nan, o2.nan), d=_dmul(self.d, o2.d), nn=(self.nn and o2.nn) or same,
                  dp=self.dp and o2.dp, sq=_sq_mul(self, o2))

    __rmul__ = __mul__

    def __truediv__(self, o):
        if isinstance(o, np.ndarray):
            return NotImplemented
        o = lift(o)
        if isinstance(o, SC):
            return SC(self.v, z3.RealVal(0), self.nan, d=self.d, dp=self.dp) / o
        if DIV_HOOK is not None and not z3.is_rational_value(z3.simplify(o.z)):
            return DIV_HOOK(self, o)
        if Explorer.cur is not None:
            # a NaN operand makes the quotient NaN whatever the divisor's stored value is: no condition on it then
            Explorer.cur.add_side(_side_unless_nan(o.v != 0, self.nan, o.nan))
        num = self.v if o.d is None else self.v * o.d
        den = _dmul(self.d, o.v)
        sn = z3.simplify(den)
        if z3.is_rational_value(sn) and sn.numerator_as_long() == 0:
            # x / 0: NaN if an operand already is NaN (blanked value), otherwise +-inf, which is not modelled
            if z3.is_true(z3.simplify(_or(self.nan, o.nan))):
                return SV(z3.RealVal(0), TRUE)
            raise ShimGap("division by the constant 0 (infinite result is not modelled)")
        if z3.is_rational_value(sn):   # constant divisor: keep the term division-free
            rc = Fraction(sn.denominator_as_long(), sn.numerator_as_long())
            cq = SV(z3.Q(rc.numerator, rc.denominator), nn=rc > 0)
            r = SV(num * cq.v, _or(self.nan, o.nan), nn=self.nn and rc > 0 and o.dp and self.d is None)
            if self.sq is not None and self.d is None and o.d is None:
                r.sq = _sq_mul(self, cq)       # (c * sqrt(x))^2 = c^2 x
            return r
        # a/(b.v/b.d) = a.v*b.d / (a.d*b.v): positive denominator iff a.d > 0 and b.v > 0
        return SV(num, _or(self.nan, o.nan), d=den, nn=self.nn and o.nn and o.dp, dp=self.dp and o.nn and o.dp,
                  sq=_sq_div(self, o))

    def __rtruediv__(self, o):
        if isinstance(o, np.ndarray):
            return NotImplemented
        return lift(o) / self

    def __pow__(self, k):
        if isinstance(k, (float, np.floating)) and float(k) == 0.5:
            return self.sqrt()
        if isinstance(k, (float, np.floating)) and float(k).is_integer():
            k = int(k)
        if not isinstance(k, (int, np.integer)):
            raise ShimGap(f"power with exponent {k!r}")
        k = int(k)
        if k == 0:
            return SV(z3.RealVal(1), self.nan)
        if k < 0:
            return lift(1) / (self ** (-k))
        if k % 2 == 0 and self.sq is not None:
            r = SV(self.sq.v, self.nan, d=self.sq.d, nn=True, dp=self.sq.dp)
            return r if k == 2 else r ** (k // 2)
        r = self
        for _ in range(k - 1):
            r = r * self
        return r

    def __neg__(self):
        return SV(-self.v, self.nan, d=self.d, dp=self.dp, sq=self.sq)

    def __pos__(self):
        return self

    def __abs__(self):
        if self.nn:
            return self
        if self.dp:
            return SV(z3.If(self.v >= 0, self.v, -self.v), self.nan, d=self.d, nn=True, dp=True, sq=self.sq)
        z = self.z
        return SV(z3.If(z >= 0, z, -z), self.nan, nn=True, sq=self.sq)

    # ---- comparisons (IEEE: false with NaN)
    def _cmp(self, o, f, eq=False):
        if isinstance(o, np.ndarray):
            return NotImplemented
        if isinstance(o, (float, np.floating)) and o in (float("inf"), float("-inf")):
            # symbolic reals are finite: compare a representative finite value with the infinity
            r = bool(f(0.0, float(o)))
            return SB(z3.And(z3.Not(self.nan), z3.BoolVal(r)))
        o = lift(o)
        if isinstance(o, SC):
            return NotImplemented
        if self.nn and o.nn and (self.sq is not None or o.sq is not None):
            a, b = sqof(self), sqof(o)   # both non-negative: order (and equality) of values = that of their squares
        else:
            a, b = self, o
        if (eq or (a.dp and b.dp)) and not _deq(a.d, b.d):
            ad = a.d if a.d is not None else z3.RealVal(1)
            bd = b.d if b.d is not None else z3.RealVal(1)
            g = f(a.v * bd, b.v * ad)     # eq: denominators non-zero by side condition; order: both positive
        elif eq or (a.dp and b.dp):
            g = f(a.v, b.v)
        else:
            g = f(a.z, b.z)
        if z3.is_false(self.nan) and z3.is_false(o.nan):
            return SB(g)
        return SB(z3.And(z3.Not(self.nan), z3.Not(o.nan), g))

    def __lt__(self, o):
        return self._cmp(o, lambda a, b: a < b)

    def __le__(self, o):
        return self._cmp(o, lambda a, b: a <= b)

    def __gt__(self, o):
        return self._cmp(o, lambda a, b: a > b)

    def __ge__(self, o):
        return self._cmp(o, lambda a, b: a >= b)

    def __eq__(self, o):
        if isinstance(o, SC):
            return o.__eq__(self)
        return self._cmp(o, lambda a, b: a == b, eq=True)

    def __ne__(self, o):
        r = self.__eq__(o)
        return r if r is NotImplemented else ~r

    def __hash__(self):
        return 0  # membership tests fall through to ==, which forks

    # ---- numpy object-loop protocol
    def isnan(self):
        return SB(self.nan)

    def conjugate(self):
        return self

    conj = conjugate

    @property
    def real(self):
        return self

    @property
    def imag(self):
        return SV(z3.RealVal(0), self.nan)

    def sqrt(self):
        e = cur()
        z = self.z
        sz = z3.simplify(z)
        if z3.is_rational_value(sz):
            fr = Fraction(sz.numerator_as_long(), sz.denominator_as_long())
            import math
            if fr >= 0:
                rn, rd = math.isqrt(fr.numerator), math.isqrt(fr.denominator)
                if rn * rn == fr.numerator and rd * rd == fr.denominator:
                    return SV(z3.Q(rn, rd), self.nan, nn=True)
        f = z3.Function("uf_sqrt", z3.RealSort(), z3.RealSort())
        # canonical (simplified) argument: later z3.simplify calls on conditions must not change the application,
        # otherwise its lazily asserted definition would not be found
        z = sz
        s = f(z)
        e.add_lazy_def(s, z3.And(s >= 0, s * s == z, z >= 0))
        return SV(s, self.nan, sq=SV(self.v, self.nan, d=self.d, nn=True, dp=self.dp), nn=True)

    def _uf(self, name):
        f = z3.Function(name, z3.RealSort(), z3.RealSort())
        return SV(f(self.z), self.nan)

    def log(self):
        return self._uf("uf_log")

    def log10(self):
        return self._uf("uf_log10")

    def exp(self):
        return self._uf("uf_exp")

    def arccos(self):
        r = self._uf("uf_arccos")
        if Explorer.cur is not None:
            Explorer.cur.add_def(z3.And(r.v >= 0, r.v <= z3.Q(355, 113) + 1))
        return r

    def astype(self, t):
        return self

    def copy(self):
        return SV(self.v, self.nan, self.sq, self.d, self.nn, self.dp)

    def item(self):
        return self

    def __float__(self):
        raise ShimGap("float() of a symbolic real (realisation)")

    INT_FORK_LIMIT = 40

    def __int__(self):
        """int() must return a concrete integer: fork over the possible truncations (bounded; beyond the bound the
        realisation is a shim gap)"""
        ex = Explorer.cur
        if ex is None:
            raise ShimGap("int() of a symbolic real (realisation)")
        if z3.is_true(z3.simplify(self.nan)):
            raise ValueError("cannot convert float NaN to integer")
        x = self.z
        if ex.decide(x >= 0):
            for k in range(SV.INT_FORK_LIMIT):
                if ex.decide(x < k + 1):
                    return k
        else:
            for k in range(SV.INT_FORK_LIMIT):
                if ex.decide(x > -(k + 1)):
                    return -k
        raise ShimGap("int() of a symbolic real beyond the fork limit")

    __index__ = __int__

    def __complex__(self):
        raise ShimGap("complex() of a symbolic real (realisation)")

    def __bool__(self):
        return bool(SB(tob(self)))

    def __repr__(self):
        return f"SV({self.z}{'' if z3.is_false(self.nan) else ', nan=' + str(self.nan)})"

    def __array_ufunc__(self, ufunc, method, *inputs, **kw):
        from . import arr
        return arr.scalar_ufunc(ufunc, method, *inputs, **kw)

    def __array_function__(self, func, types, args, kwargs):
        from . import arr
        return arr.dispatch_function(func, args, kwargs)


def toc(x):
    x = lift(x)
    if isinstance(x, SC):
        return x
    return SC(x.v, z3.RealVal(0), x.nan, d=x.d, dp=x.dp)


class SC:
    """complex number (re + i im)/d with real polynomial terms re, im, d (d None = 1) and one NaN flag"""

    __array_priority__ = 1000
    __slots__ = ("re", "im", "nan", "d", "dp")

    def __init__(self, re, im, nan=None, d=None, dp=None):
        self.re = re
        self.im = im
        self.nan = FALSE if nan is None else nan
        self.d = d
        self.dp = (d is None) if dp is None else dp   # denominator known to be > 0

    @property
    def rez(self):
        return self.re if self.d is None else self.re / self.d

    @property
    def imz(self):
        return self.im if self.d is None else self.im / self.d

    def _c(self, o):
        if isinstance(o, np.ndarray):
            return None
        return toc(o)

    def __add__(self, o, sign=1):
        o = self._c(o)
        if o is None:
            return NotImplemented
        nan = _or(self.nan, o.nan)
        ore, oim = (o.re, o.im) if sign == 1 else (-o.re, -o.im)
        if _deq(self.d, o.d):
            return SC(self.re + ore, self.im + oim, nan, d=self.d, dp=self.dp)
        sd = self.d if self.d is not None else z3.RealVal(1)
        od = o.d if o.d is not None else z3.RealVal(1)
        return SC(self.re * od + ore * sd, self.im * od + oim * sd, nan, d=_dmul(self.d, o.d), dp=self.dp and o.dp)

    __radd__ = __add__

    def __sub__(self, o):
        return self.__add__(o, -1)

    def __rsub__(self, o):
        if isinstance(o, np.ndarray):
            return NotImplemented
        return toc(o) - self

    def __mul__(self, o):
        o = self._c(o)
        if o is None:
            return NotImplemented
        return SC(self.re * o.re - self.im * o.im, self.re * o.im + self.im * o.re, _or(self.nan, o.nan),
                  d=_dmul(self.d, o.d), dp=self.dp and o.dp)

    __rmul__ = __mul__

    def __truediv__(self, o):
        o = self._c(o)
        if o is None:
            return NotImplemented
        # (a/ad) / (b/bd) = a*conj(b)*bd / (ad*|b|^2)
        n2 = o.re * o.re + o.im * o.im
        if Explorer.cur is not None:
            Explorer.cur.add_side(_side_unless_nan(n2 != 0, self.nan, o.nan))
        re = self.re * o.re + self.im * o.im
        im = self.im * o.re - self.re * o.im
        if o.d is not None:
            re, im = re * o.d, im * o.d
        sn = z3.simplify(n2)
        if z3.is_rational_value(sn) and sn.numerator_as_long() == 0:
            if z3.is_true(z3.simplify(_or(self.nan, o.nan))):
                return SC(z3.RealVal(0), z3.RealVal(0), TRUE)
            raise ShimGap("complex division by the constant 0")
        if z3.is_rational_value(sn):
            rc = z3.Q(sn.denominator_as_long(), sn.numerator_as_long())
            return SC(re * rc, im * rc, _or(self.nan, o.nan), d=self.d, dp=self.dp)
        # n2 = |numerator of o|^2 > 0 by side condition
        return SC(re, im, _or(self.nan, o.nan), d=_dmul(self.d, n2), dp=self.dp)

    def __rtruediv__(self, o):
        if isinstance(o, np.ndarray):
            return NotImplemented
        return toc(o) / self

    def __pow__(self, k):
        if isinstance(k, (int, np.integer)) and k == 0:
            return SC(z3.RealVal(1), z3.RealVal(0), self.nan)
        if not isinstance(k, (int, np.integer)) or k < 1:
            raise ShimGap(f"complex power {k!r}")
        r = self
        for _ in range(int(k) - 1):
            r = r * self
        return r

    def __neg__(self):
        return SC(-self.re, -self.im, self.nan, d=self.d, dp=self.dp)

    def __pos__(self):
        return self

    def abs2(self):
        return SV(self.re * self.re + self.im * self.im, self.nan, d=None if self.d is None else self.d * self.d,
                  nn=True, dp=True)

    def __abs__(self):
        si = z3.simplify(self.im)
        if z3.is_rational_value(si) and si.numerator_as_long() == 0:
            return abs(SV(self.re, self.nan, d=self.d))
        return self.abs2().sqrt()

    def conjugate(self):
        return SC(self.re, -self.im, self.nan, d=self.d, dp=self.dp)

    conj = conjugate

    @property
    def real(self):
        return SV(self.re, self.nan, d=self.d, dp=self.dp)

    @property
    def imag(self):
        return SV(self.im, self.nan, d=self.d, dp=self.dp)

    def __eq__(self, o):
        if isinstance(o, np.ndarray):
            return NotImplemented
        try:
            o = toc(o)
        except ShimGap:
            return NotImplemented
        a, b = self.real == o.real, self.imag == o.imag
        return SB(z3.And(a.b, b.b))

    def __ne__(self, o):
        r = self.__eq__(o)
        return r if r is NotImplemented else ~r

    def __hash__(self):
        return 0

    def isnan(self):
        return SB(self.nan)

    def log(self):
        fr = z3.Function("uf_clog_re", z3.RealSort(), z3.RealSort(), z3.RealSort())
        fi = z3.Function("uf_clog_im", z3.RealSort(), z3.RealSort(), z3.RealSort())
        return SC(fr(self.rez, self.imz), fi(self.rez, self.imz), self.nan)

    def astype(self, t):
        return self

    def copy(self):
        return SC(self.re, self.im, self.nan, self.d, self.dp)

    def item(self):
        return self

    def __float__(self):
        raise ShimGap("float() of a symbolic complex")

    def __complex__(self):
        raise ShimGap("complex() of a symbolic complex (realisation)")

    def __bool__(self):
        return bool(SB(z3.Or(self.re != 0, self.im != 0, self.nan)))

    def __repr__(self):
        return f"SC({self.rez}, {self.imz}{'' if z3.is_false(self.nan) else ', nan=' + str(self.nan)})"

    def __array_ufunc__(self, ufunc, method, *inputs, **kw):
        from . import arr
        return arr.scalar_ufunc(ufunc, method, *inputs, **kw)

    def __array_function__(self, func, types, args, kwargs):
        from . import arr
        return arr.dispatch_function(func, args, kwargs)


def _listify(cls):
    """np.float64-like behaviour for list operands: `[f1, f2] - x` becomes an array operation"""
    import operator
    table = {"__add__": (operator.add, False), "__radd__": (operator.add, True), "__sub__": (operator.sub, False),
             "__rsub__": (operator.sub, True), "__mul__": (operator.mul, False), "__rmul__": (operator.mul, True),
             "__truediv__": (operator.truediv, False), "__rtruediv__": (operator.truediv, True)}
    for name, (op, refl) in table.items():
        orig = getattr(cls, name)

        def w(self, o, *extra, _orig=orig, _op=op, _refl=refl):
            if isinstance(o, (list, tuple)):
                from .arr import SymArray
                a = SymArray(np.array(o, dtype=object))
                return _op(a, self) if _refl else _op(self, a)
            return _orig(self, o, *extra)
        setattr(cls, name, w)


_listify(SV)
_listify(SC)


def ite(c, a, b):
    """If-then-else over lifted scalars"""
    if isinstance(c, SB):
        c = c.b
    if isinstance(a, SB) or isinstance(b, SB):
        if isinstance(a, (SB, bool, np.bool_)) and isinstance(b, (SB, bool, np.bool_)):
            return SB(z3.If(c, tob(a), tob(b)))
    a, b = lift(a), lift(b)
    if isinstance(a, SC) or isinstance(b, SC):
        a, b = toc(a), toc(b)
        if _deq(a.d, b.d):
            return SC(z3.If(c, a.re, b.re), z3.If(c, a.im, b.im), z3.simplify(z3.If(c, a.nan, b.nan)), d=a.d,
                      dp=a.dp and b.dp)
        return SC(z3.If(c, a.rez, b.rez), z3.If(c, a.imz, b.imz), z3.simplify(z3.If(c, a.nan, b.nan)))
    if _deq(a.d, b.d):
        return SV(z3.If(c, a.v, b.v), z3.simplify(z3.If(c, a.nan, b.nan)), d=a.d, nn=a.nn and b.nn, dp=a.dp and b.dp)
    return SV(z3.If(c, a.z, b.z), z3.simplify(z3.If(c, a.nan, b.nan)), nn=a.nn and b.nn)


NAN = float("nan")


SOM_BLOWUP = 20000   # bound on the rewriter's sum-of-monomials expansion (it has no timeout of its own)


def differs(a, b):
    """z3 Bool: a and b differ (or either is NaN) — inverse-free (cross-multiplied)"""
    a, b = lift(a), lift(b)
    if isinstance(a, SC) or isinstance(b, SC):
        a, b = toc(a), toc(b)
        return z3.Or(differs(a.real, b.real), differs(a.imag, b.imag))
    ad = a.d if a.d is not None else z3.RealVal(1)
    bd = b.d if b.d is not None else z3.RealVal(1)
    diff = a.v * bd - b.v * ad
    try:
        # z3's rewriter in sum-of-monomials mode settles polynomial identities by normalisation
        nf = z3.simplify(diff, som=True, som_blowup=SOM_BLOWUP)
        if z3.is_rational_value(nf) and nf.numerator_as_long() == 0:
            return _or(a.nan, b.nan)
        return _or(a.nan, b.nan, nf != 0)
    except z3.Z3Exception:
        return _or(a.nan, b.nan, diff != 0)


def differs_nan(a, b):
    """like differs, but NaN in the same place counts as equal (for tables with a symbolic NaN pattern)"""
    a, b = lift(a), lift(b)
    if isinstance(a, SC) or isinstance(b, SC):
        a, b = toc(a), toc(b)
        na, nb = a.nan, b.nan
        val = z3.Or(differs(SV(a.re, d=a.d), SV(b.re, d=b.d)), differs(SV(a.im, d=a.d), SV(b.im, d=b.d)))
    else:
        na, nb = a.nan, b.nan
        val = differs(SV(a.v, d=a.d), SV(b.v, d=b.d))
    return z3.Or(na != nb, z3.And(z3.Not(na), val))


def far(a, b, tol):
    """z3 Bool: |a-b| > tol (component-wise for complex) or NaN — robust margin for replayable models"""
    a, b = lift(a), lift(b)
    t = z3.Q(*Fraction(tol).limit_denominator(10 ** 12).as_integer_ratio())
    if isinstance(a, SC) or isinstance(b, SC):
        a, b = toc(a), toc(b)
        return z3.Or(far(a.real, b.real, tol), far(a.imag, b.imag, tol))
    dz = a.z - b.z
    return _or(a.nan, b.nan, dz > t, dz < -t)


# ------------------------------------------------------------------------------- model evaluation
def mval(m, t):
    """z3 term -> python Fraction under model m"""
    v = m.eval(t, model_completion=True)
    if z3.is_rational_value(v):
        return Fraction(v.numerator_as_long(), v.denominator_as_long())
    if z3.is_int_value(v):
        return Fraction(v.as_long())
    if z3.is_algebraic_value(v):
        a = v.approx(30)
        return Fraction(a.numerator_as_long(), a.denominator_as_long())
    if z3.is_true(v):
        return True
    if z3.is_false(v):
        return False
    raise ShimGap(f"cannot evaluate {t} -> {v}")


def concretize(m, x):
    """symbolic scalar / array -> python float / complex / bool under model m"""
    if isinstance(x, SV):
        if mval(m, x.nan) is True:
            return NAN
        return float(mval(m, x.z))
    if isinstance(x, SC):
        if mval(m, x.nan) is True:
            return complex(NAN, NAN)
        return complex(float(mval(m, x.rez)), float(mval(m, x.imz)))
    if isinstance(x, SB):
        return bool(mval(m, x.b))
    if isinstance(x, np.ndarray):
        flat = [concretize(m, v) for v in x.ravel().view(np.ndarray).tolist()] if x.dtype != object else [
            concretize(m, v) for v in np.asarray(x).view(np.ndarray).ravel()
        ]
        if any(isinstance(v, complex) for v in flat):
            return np.array(flat, dtype=complex).reshape(x.shape)
        if flat and all(isinstance(v, bool) for v in flat):
            return np.array(flat, dtype=bool).reshape(x.shape)
        return np.array(flat, dtype=float).reshape(x.shape)
    if isinstance(x, (list, tuple)):
        return type(x)(concretize(m, v) for v in x)
    return x
