"""symx.harness — job runner, verdict aggregation, known findings, replay files, evidence."""
import hashlib
import logging
import importlib
import json
import multiprocessing as mp
import os
import sys
import time
import traceback

import numpy as np

logging.disable(logging.CRITICAL)   # the real code logs at INFO during replays
ROOT = os.path.dirname(os.path.dirname(os.path.abspath(__file__)))
# development only (mutant evaluation against a scratch worktree): where evidence and replay files are written
OUT = os.environ.get("VERIF_OUT", ROOT)
KNOWN = os.path.join(ROOT, "known_findings.json")
EXIT_OK, EXIT_VIOLATION, EXIT_HARNESS = 0, 1, 3


# ------------------------------------------------------------------ json helpers
def to_json(x):
    if isinstance(x, np.ndarray):
        if np.iscomplexobj(x):
            return {"__nd__": list(x.shape), "re": x.real.ravel().tolist(), "im": x.imag.ravel().tolist()}
        if x.dtype == bool:
            return {"__nd__": list(x.shape), "b": x.ravel().tolist()}
        if x.dtype == object:
            return {"__nd__": list(x.shape), "o": [to_json(v) for v in x.ravel().tolist()]}
        return {"__nd__": list(x.shape), "v": x.astype(float).ravel().tolist()}
    if isinstance(x, complex):
        return {"__c__": [x.real, x.imag]}
    if isinstance(x, (np.floating,)):
        return float(x)
    if isinstance(x, (np.integer,)):
        return int(x)
    if isinstance(x, (np.bool_,)):
        return bool(x)
    if isinstance(x, dict):
        return {str(k): to_json(v) for k, v in x.items()}
    if isinstance(x, (list, tuple)):
        return [to_json(v) for v in x]
    return x


def from_json(x):
    if isinstance(x, dict):
        if "__nd__" in x:
            sh = tuple(x["__nd__"])
            if "re" in x:
                return (np.array(x["re"], dtype=float) + 1j * np.array(x["im"], dtype=float)).reshape(sh)
            if "b" in x:
                return np.array(x["b"], dtype=bool).reshape(sh)
            if "o" in x:
                a = np.empty(len(x["o"]), dtype=object)
                for i, v in enumerate(x["o"]):
                    a[i] = from_json(v)
                return a.reshape(sh)
            return np.array(x["v"], dtype=float).reshape(sh)
        if "__c__" in x:
            return complex(*x["__c__"])
        return {k: from_json(v) for k, v in x.items()}
    if isinstance(x, list):
        return [from_json(v) for v in x]
    return x


# ------------------------------------------------------------------ job execution
class _JobBudget(BaseException):
    pass


def _alarm(signum, frame):
    raise _JobBudget()


def _run_job(args):
    modname, job, tier = args
    t0 = time.time()
    import signal
    budget = int(os.environ.get("VERIF_JOB_S", "420" if tier == "quick" else "900"))
    try:
        signal.signal(signal.SIGALRM, _alarm)
        signal.alarm(budget)
    except (ValueError, AttributeError):
        pass
    try:
        mod = importlib.import_module(modname)
        res = mod.run(dict(job), tier)
        res.setdefault("status", "held")
    except _JobBudget:
        # wall budget of one job exhausted (typically a non-linear model search on broken code): never success
        res = {"status": "inconclusive", "obligations": 1, "discharged": 0, "inconclusive": 1, "reach": True,
               "sample": {"label": f"job stopped after {budget} s (wall budget)", "verdict": "unknown"}}
    except BaseException as e:  # noqa: BLE001 — ShimGap/Budget are BaseExceptions by design
        res = {"status": "error", "detail": f"{type(e).__name__}: {e}",
               "trace": traceback.format_exc()[-3000:]}
        if "_JobBudget" in f"{type(e).__name__}: {e}" or "_JobBudget" in res["trace"]:
            # the budget alarm fired inside a solver call and surfaced wrapped in a ctypes error: it is a budget stop
            res = {"status": "inconclusive", "obligations": 1, "discharged": 0, "inconclusive": 1, "reach": True,
                   "sample": {"label": f"job stopped after {budget} s (wall budget)", "verdict": "unknown"}}
        elif type(e).__name__ == "ShimGap":
            # the encoding could not follow the code (e.g. it now calls a routine the shim does not model).  Before this is
            # reported as a harness error, the obligation's definitional replay is run on the real code: a violation it
            # confirms is a violation (found by the replay oracle, not by a solver model - labelled as such); otherwise the
            # harness error stands.
            try:
                rv = mod.replay(job["ob"], dict(job.get("cfg", {})), {})
                if rv and rv[0]:
                    res = {"status": "cex", "obligations": 1, "discharged": 0, "inconclusive": 0, "reach": True, "paths": 0, "queries": 0,
                           "solver_s": 0.0, "sample": {"label": "encoding gap; definitional replay on the real code", "verdict": "n/a"},
                           "cex": [{"inputs": {}, "reproduced": True, "key": "shim-gap-replay",
                                    "detail": f"encoding gap ({e}); the definitional replay on the real code fails: {rv[1]}"}]}
            except BaseException:  # noqa: BLE001
                pass
    try:
        signal.alarm(0)
    except (ValueError, AttributeError):
        pass
    res["ob"] = job["ob"]
    res["cfg"] = job.get("cfg", {})
    res["wall_s"] = round(time.time() - t0, 3)
    return res


def _child(conn, args):
    try:
        conn.send(_run_job(args))
    except BaseException as e:  # noqa: BLE001
        try:
            conn.send({"status": "error", "detail": f"worker failed: {type(e).__name__}: {e}", "ob": args[1]["ob"],
                       "cfg": args[1].get("cfg", {})})
        except Exception:  # noqa: BLE001
            pass
    finally:
        conn.close()


def _schedule(modname, jobs, tier, procs):
    """one process per job with a HARD wall limit: z3 does not always honour its own timeout (non-linear root
    isolation can run for many minutes), so a job that overruns is killed and reported inconclusive - never success"""
    ctx = mp.get_context("fork")
    soft = int(os.environ.get("VERIF_JOB_S", "420" if tier == "quick" else "900"))
    hard = soft + 120
    pending = list(enumerate(jobs))
    running = {}
    results = [None] * len(jobs)
    while pending or running:
        while pending and len(running) < procs:
            i, job = pending.pop(0)
            parent, child = ctx.Pipe(duplex=False)
            p = ctx.Process(target=_child, args=(child, (modname, job, tier)), daemon=True)
            p.start()
            child.close()
            running[i] = (p, parent, time.time(), job)
        time.sleep(0.05)
        for i in list(running):
            p, conn, t0, job = running[i]
            if conn.poll():
                try:
                    results[i] = conn.recv()
                except EOFError:
                    results[i] = {"status": "error", "detail": "worker died", "ob": job["ob"], "cfg": job.get("cfg", {})}
                p.join(5)
                conn.close()
                del running[i]
            elif not p.is_alive():
                results[i] = {"status": "error", "detail": f"worker exited with code {p.exitcode}", "ob": job["ob"], "cfg": job.get("cfg", {})}
                conn.close()
                del running[i]
            elif time.time() - t0 > hard:
                p.kill()
                p.join(5)
                conn.close()
                results[i] = {"status": "inconclusive", "obligations": 1, "discharged": 0, "inconclusive": 1, "reach": True,
                              "ob": job["ob"], "cfg": job.get("cfg", {}), "wall_s": round(time.time() - t0, 1),
                              "sample": {"label": f"job killed after {hard} s (solver did not return)", "verdict": "unknown"}}
                del running[i]
    return results


def load_known():
    if not os.path.exists(KNOWN):
        return {"findings": [], "fixed": []}
    with open(KNOWN) as f:
        return json.load(f)


def run_property(modname, tier, seed=0, only=None, procs=None):
    mod = importlib.import_module(modname)
    pid = mod.PROPERTY
    t0 = time.time()
    jobs = mod.jobs(tier)
    if only:
        jobs = [j for j in jobs if j["ob"] in only]
    rnd = np.random.RandomState(seed)
    order = list(range(len(jobs)))
    rnd.shuffle(order)  # VERIF_SEED only changes scheduling order
    jobs = [jobs[i] for i in order]
    procs = procs or min(int(os.environ.get("VERIF_PROCS", "16")), max(1, len(jobs)))
    results = _schedule(modname, jobs, tier, procs)
    return finish(mod, pid, tier, seed, results, time.time() - t0)


def finish(mod, pid, tier, seed, results, wall):
    known = load_known()
    kf = [k for k in known.get("findings", []) if k["property"] == pid]
    lines = []
    exit_code = EXIT_OK
    n_viol = 0
    n_known = 0
    errors = []
    seen_known = set()
    seen_viol = set()
    # a configuration split over partitions of its decision tree ("part") is vacuous only if no partition reaches an obligation
    def _grp(r):
        return (r["ob"], json.dumps({k: v for k, v in r.get("cfg", {}).items() if k != "part"}, sort_keys=True))
    part_reach = {}
    for r in results:
        if r.get("cfg", {}).get("part") and r["status"] != "error":
            part_reach[_grp(r)] = part_reach.get(_grp(r), False) or r.get("reach") is not False
    for r in results:
        st = r["status"]
        if st == "error":
            errors.append(f"{r['ob']} {json.dumps(r['cfg'])}: {r.get('detail')}")
            continue
        if r.get("reach") is False and not part_reach.get(_grp(r), False):
            errors.append(f"{r['ob']} {json.dumps(r['cfg'])}: vacuous harness (reachability witness unsat)")
        for cex in r.get("cex", []):
            if not cex.get("reproduced"):
                errors.append(f"{r['ob']} {json.dumps(r['cfg'])}: counterexample did not reproduce on the real "
                              f"code: {cex.get('detail')}")
                continue
            key = cex.get("key")
            match = [k for k in kf if k["obligation"] in (r["ob"], "*") and key is not None and
                     (k["key"] == key or (k["key"].endswith("*") and key.startswith(k["key"][:-1])))]
            if match:
                n_known += 1
                if match[0]["key"] not in seen_known:
                    seen_known.add(match[0]["key"])
                    lines.append(f"KNOWN-FINDING: property={pid} {r['ob']} {match[0]['what']}")
                continue
            n_viol += 1
            tag = (r["ob"], key)
            path = write_replay(pid, r, cex)
            if tag not in seen_viol:
                seen_viol.add(tag)
                lines.append(f"VIOLATION property={pid} replay={path}")
                lines.append(f"  obligation={r['ob']} cfg={json.dumps(r['cfg'])} key={key} :: {cex.get('detail')}")
            exit_code = EXIT_VIOLATION
    if errors:
        for e in errors[:20]:
            lines.append(f"HARNESS-ERROR property={pid} {e}")
        if exit_code == EXIT_OK:
            exit_code = EXIT_HARNESS
    write_evidence(mod, pid, tier, seed, results, wall, n_viol, n_known, errors)
    for ln in lines:
        print(ln)
    nob = sum(r.get("obligations", 0) for r in results)
    ndis = sum(r.get("discharged", 0) for r in results)
    ninc = sum(r.get("inconclusive", 0) for r in results)
    print(f"[{pid}] tier={tier} jobs={len(results)} obligations={nob} discharged={ndis} inconclusive={ninc} "
          f"violations={n_viol} known={n_known} errors={len(errors)} wall={wall:.1f}s exit={exit_code}")
    return exit_code


def write_replay(pid, r, cex):
    d = os.path.join(OUT, "replays", pid)
    os.makedirs(d, exist_ok=True)
    body = {"property": pid, "ob": r["ob"], "cfg": r["cfg"], "inputs": cex.get("inputs"),
            "key": cex.get("key"), "detail": cex.get("detail")}
    s = json.dumps(body, sort_keys=True)
    h = hashlib.sha1(s.encode()).hexdigest()[:10]
    path = os.path.join(d, f"{r['ob']}-{h}.json")
    with open(path, "w") as f:
        f.write(s)
    return path


def write_evidence(mod, pid, tier, seed, results, wall, n_viol, n_known, errors):
    meta = getattr(mod, "META", {})
    nob = sum(r.get("obligations", 0) for r in results)
    ndis = sum(r.get("discharged", 0) for r in results)
    ninc = sum(r.get("inconclusive", 0) for r in results)
    paths = sum(r.get("paths", 0) for r in results)
    queries = sum(r.get("queries", 0) for r in results)
    solver_s = round(sum(r.get("solver_s", 0.0) for r in results), 3)
    encoded = sorted({e for r in results for e in r.get("encoded", [])})
    nontrivial = len({(r["ob"], json.dumps(r["cfg"], sort_keys=True)) for r in results if r.get("reach")})
    samples = []
    per_ob = {}
    for r in results:
        o = per_ob.setdefault(r["ob"], {"jobs": 0, "obligations": 0, "discharged": 0, "inconclusive": 0,
                                          "paths": 0, "queries": 0, "solver_s": 0.0, "cex": 0, "errors": 0})
        o["jobs"] += 1
        for k in ("obligations", "discharged", "inconclusive", "paths", "queries"):
            o[k] += r.get(k, 0)
        o["solver_s"] = round(o["solver_s"] + r.get("solver_s", 0.0), 3)
        o["cex"] += len(r.get("cex", []))
        o["errors"] += 1 if r["status"] == "error" else 0
        if r.get("sample") and len(samples) < 12:
            samples.append({"ob": r["ob"], "cfg": r["cfg"], "sample": r["sample"]})
    for r in results:
        for cex in r.get("cex", [])[:1]:
            if len(samples) < 16:
                samples.append({"ob": r["ob"], "cfg": r["cfg"], "counterexample": cex.get("detail"),
                                "key": cex.get("key"), "reproduced": cex.get("reproduced")})
    if not samples:
        samples = [{"ob": r["ob"], "cfg": r["cfg"]} for r in results[:3]]
    ev = {
        "property_id": pid,
        "tier": tier,
        "seed": int(seed),
        "level": "other",
        "coverage": {
            "explanation": meta.get("explanation", "") + (
                " Every obligation is a solver query `path-condition AND assumptions AND NOT property` over the "
                "symbolic outputs of the real code objects executed from /repo's working tree; unsat = holds for "
                "all values within the sizes listed under bounds; sat models are replayed on the unmodified code."),
            "evaluations": max(int(queries), 1),
            "distinct_nontrivial": int(nontrivial),
            "rule": "evaluations = SMT queries issued (feasibility + obligation); distinct_nontrivial = distinct "
                    "(obligation, size-configuration) pairs whose reachability witness (property replaced by False) "
                    "was sat, i.e. the harness reached its assertion with a satisfiable path condition",
            "samples": samples,
            "obligations": int(nob),
            "discharged": int(ndis),
            "inconclusive": int(ninc),
            "paths": int(paths),
            "queries": int(queries),
            "solver_s": solver_s,
            "functions_encoded": encoded,
            "bounds": meta.get("bounds", {}).get(tier, meta.get("bounds", {})),
            "stubs": meta.get("stubs", []),
            "per_obligation": per_ob,
            "known_findings_matched": int(n_known),
            "harness_errors": errors[:20],
            "solver": "z3 " + _z3v(),
            "exhaustive": False,
        },
        "assumptions": meta.get("assumptions", []) + [
            "real arithmetic with a NaN flag stands in for float64 (DESIGN §2.2); no claim about rounding",
            "sizes beyond the stated bounds are outside the claim",
        ],
        "wall_s": round(wall, 3),
        "violations": int(n_viol),
    }
    os.makedirs(os.path.join(OUT, "evidence"), exist_ok=True)
    with open(os.path.join(OUT, "evidence", f"{pid}.json"), "w") as f:
        json.dump(ev, f, indent=1, default=str)


def _z3v():
    try:
        import z3
        return z3.get_version_string()
    except Exception:
        return "?"


def replay_file(modname, path):
    mod = importlib.import_module(modname)
    with open(path) as f:
        rep = json.load(f)
    viol, detail = mod.replay(rep["ob"], rep["cfg"], from_json(rep["inputs"]))
    print(("REPRODUCED " if viol else "NOT-REPRODUCED ") + f"property={rep['property']} ob={rep['ob']} :: {detail}")
    return EXIT_VIOLATION if viol else EXIT_OK


# ------------------------------------------------------------------ per-path obligation helper
class Tally:
    """collects counts for one job"""

    def __init__(self, world=None, encoded_filter=None):
        self.obligations = 0
        self.discharged = 0
        self.inconclusive = 0
        self.cex = []
        self.reach = False
        self.stop = False
        self.sample = None
        self.world = world
        self.encoded_filter = encoded_filter

    def result(self, ex, extra=None):
        r = {
            "status": "cex" if self.cex else ("inconclusive" if self.inconclusive and not self.discharged else "held"),
            "obligations": self.obligations, "discharged": self.discharged, "inconclusive": self.inconclusive,
            "paths": ex.npaths if ex else 0, "queries": ex.nq if ex else 0,
            "solver_s": round(ex.tq, 3) if ex else 0.0,
            "reach": self.reach, "cex": self.cex, "sample": self.sample,
        }
        if self.world is not None:
            r["encoded"] = self.world.encoded_list(self.encoded_filter)
        if extra:
            r.update(extra)
        return r

    # one solver-decided obligation at the end of a path
    def decide(self, ex, neg_prop, assumptions=(), on_sat=None, timeout_ms=None, label=None, robust=None, with_side=True, hints=False):
        """neg_prop: exact negation of the property (decides held / not held).  robust: optional stronger
        negation (violation by a margin) used only to pick a counterexample that replays in float64."""
        import z3
        self.obligations += 1
        if not self.reach:
            if _probe_witness(ex, assumptions):
                self.reach = True
            else:
                r0, _ = ex.query(*assumptions, timeout_ms=timeout_ms, with_side=with_side)
                if r0 == z3.sat:
                    self.reach = True
        r, m = None, None
        if hints:
            # cheap model search first (z3's non-linear engine does not always honour its timeout on satisfiable instances)
            m = _hint_model(ex, list(assumptions) + [neg_prop], with_side, tries=150)
            if m is not None:
                r = z3.sat
                self.reach = True
        if r is None:
            r, m = ex.query(*assumptions, neg_prop, timeout_ms=timeout_ms, with_side=with_side)
        if self.sample is None:
            s = str(z3.simplify(neg_prop) if not isinstance(neg_prop, bool) else neg_prop)
            self.sample = {"label": label, "negated_property": s[:600],
                           "path_condition": [str(c)[:200] for c in ex.pc[:6]], "verdict": str(r)}
        if r == z3.unsat:
            self.discharged += 1
            return "unsat"
        if r == z3.unknown:
            # model search fallback: the solver gave up (non-linear search); try a palette of small rational assignments and
            # let the rewriter evaluate path condition, side conditions, assumptions and the negated property under each.
            # A hit is a genuine model (it is replayed like any other); a miss leaves the obligation inconclusive.
            m = _hint_model(ex, list(assumptions) + [neg_prop], with_side)
            if m is None:
                self.inconclusive += 1
                return "unknown"
            r = z3.sat
        if robust is not None:
            r2, m2 = ex.query(*assumptions, robust, timeout_ms=timeout_ms, with_side=with_side)
            if r2 == z3.sat:
                m = m2
        if on_sat is not None:
            cex = on_sat(m)
            if cex is not None:
                if label and "label" not in cex:
                    cex["label"] = label
                self.cex.append(cex)
                if cex.get("reproduced"):
                    # one replay-confirmed counterexample decides the job: stop exploring (keeps a broken tree from
                    # turning the check into a long non-linear model search)
                    self.stop = True
                    ex.halt = True
        return "sat"


def _free_consts(exprs):
    import z3
    seen, out, stack = set(), {}, list(exprs)
    while stack:
        e = stack.pop()
        if e.get_id() in seen:
            continue
        seen.add(e.get_id())
        if z3.is_const(e) and e.decl().kind() == z3.Z3_OP_UNINTERPRETED:
            out[e.get_id()] = e
        else:
            stack.extend(e.children())
    return list(out.values())


def _probe_witness(ex, assumptions):
    """cheap reachability witness: evaluate path condition + assumptions under a fixed assignment of
    distinct small rationals; True only if everything evaluates to true (otherwise the solver is asked)"""
    import z3
    try:
        conj = list(ex.pc) + list(ex.defs) + list(ex.side) + list(getattr(ex, 'facts', [])) + list(assumptions)
        if not conj:
            return True
        for shift in (0, 3, 11):
            subs = []
            for i, c in enumerate(sorted(_free_consts(conj), key=str)):
                if z3.is_bool(c):
                    subs.append((c, z3.BoolVal(False)))
                elif z3.is_int(c):
                    subs.append((c, z3.IntVal(0)))
                else:
                    subs.append((c, z3.Q(7 + 3 * ((i + shift) % 17) + (i + shift), 5 + ((i * 7 + shift) % 11))
                                 * (-1 if (i + shift) % 3 == 0 else 1)))
            if all(z3.is_true(z3.simplify(z3.substitute(c, *subs))) for c in conj):
                return True
    except Exception:  # noqa: BLE001
        return False
    return False


class _SubstModel:
    """stands in for a z3 model: evaluation by substitution of a total assignment"""

    def __init__(self, subs):
        self.subs = subs

    def eval(self, t, model_completion=True):
        import z3
        return z3.simplify(z3.substitute(t, *self.subs))


_PALETTE = [(0, 1), (1, 1), (-1, 1), (2, 1), (-2, 1), (1, 2), (-1, 2), (3, 2), (3, 1), (-3, 2), (1, 4), (5, 2), (-1, 4), (4, 1), (1, 3)]


def _hint_model(ex, formulas, with_side=True, tries=400, seed=12345):
    import random
    import z3
    try:
        conj = list(ex.pc) + list(ex.defs) + (list(ex.side) if with_side else []) + list(getattr(ex, "facts", [])) + list(formulas)
        consts = sorted(_free_consts(conj), key=str)
        if not consts or len(consts) > 80:
            return None
        rnd = random.Random(seed)
        for _ in range(tries):
            subs = []
            for c in consts:
                if z3.is_bool(c):
                    subs.append((c, z3.BoolVal(rnd.random() < 0.3)))
                elif z3.is_int(c):
                    subs.append((c, z3.IntVal(rnd.choice([0, 1, 2]))))
                elif z3.is_real(c):
                    n, d = rnd.choice(_PALETTE)
                    subs.append((c, z3.Q(n, d)))
                else:
                    return None
            if all(z3.is_true(z3.simplify(z3.substitute(f, *subs))) for f in conj):
                return _SubstModel(subs)
    except Exception:  # noqa: BLE001
        return None
    return None
