"""symx.arr — NumPy side of the shim: ndarray subclass with object cells, ufunc/function lifting,
the `np` proxy handed to twins (DESIGN §2.3)."""
import itertools

import numpy as np
import z3

from .core import (SB, SC, SV, Explorer, ShimGap, cur, is_sym, ite, lift, tob, toc, FALSE, TRUE, NAN)

HANDLED = {}


def implements(*fs):
    def deco(g):
        for f in fs:
            HANDLED[f] = g
        return g
    return deco


def plain(x):
    """strip SymArray -> plain object ndarray view (recursively through lists/tuples)"""
    if isinstance(x, SymArray):
        return x.view(np.ndarray)
    if isinstance(x, (list, tuple)):
        return type(x)(plain(y) for y in x)
    return x


def has_sym(x):
    if is_sym(x):
        return True
    if isinstance(x, (list, tuple)):
        return any(has_sym(y) for y in x)
    if isinstance(x, np.ndarray) and x.dtype == object:
        return True
    return False


def wrap(r):
    if isinstance(r, np.ndarray) and r.dtype == object and not isinstance(r, SymArray):
        return r.view(SymArray)
    if isinstance(r, tuple):
        return tuple(wrap(x) for x in r)
    if isinstance(r, list):
        return [wrap(x) for x in r]
    return r


def _b(x):
    return tob(x)


def _isnan(a):
    if isinstance(a, (SV, SC)):
        return a.isnan()
    if isinstance(a, SB):
        return False
    return bool(np.isnan(a))


def _sbcmp(f):
    def g(a, b):
        if isinstance(a, SB) or isinstance(b, SB):
            a, b = lift(a), lift(b)
        r = f(lift(a) if not is_sym(a) and is_sym(b) else a, b)
        return r
    return g


def _py(a):
    """plain Python number for NumPy scalars (so that comparisons with symbolic scalars reach the scalar's reflected
    operator, which also knows about +-inf), symbolic scalars unchanged"""
    if isinstance(a, np.generic):
        return a.item()
    if isinstance(a, SB):
        return lift(a)
    return a


def _logical_not(a):
    if is_sym(a):
        return SB(z3.Not(_b(a)))
    return not a


def _sign(a):
    a = lift(a)
    return SV(z3.If(a.z > 0, z3.RealVal(1), z3.If(a.z < 0, z3.RealVal(-1), z3.RealVal(0))), a.nan)


def _max2(a, b):
    """np.maximum: NaN propagates.  Inside an exploration the choice forks (keeps terms free of nested If/division)"""
    a, b = lift(a), lift(b)
    if Explorer.cur is not None:
        if bool(a.isnan()):
            return a
        if bool(b.isnan()):
            return b
        return a if bool(a >= b) else b
    return SV(z3.If(a.z >= b.z, a.z, b.z), z3.simplify(z3.Or(a.nan, b.nan)))


def _min2(a, b):
    a, b = lift(a), lift(b)
    if Explorer.cur is not None:
        if bool(a.isnan()):
            return a
        if bool(b.isnan()):
            return b
        return a if bool(a <= b) else b
    return SV(z3.If(a.z <= b.z, a.z, b.z), z3.simplify(z3.Or(a.nan, b.nan)))


def _angle_unsupported(a):
    raise ShimGap("angle")


UF = {
    "add": lambda a, b: a + b,
    "subtract": lambda a, b: a - b,
    "multiply": lambda a, b: a * b,
    "true_divide": lambda a, b: lift(a) / b,
    "divide": lambda a, b: lift(a) / b,
    "absolute": lambda a: abs(a) if is_sym(a) else abs(a),
    "fabs": lambda a: abs(a),
    "power": lambda a, b: lift(a) ** b,
    "square": lambda a: a * a,
    "negative": lambda a: -a,
    "positive": lambda a: a,
    "sqrt": lambda a: lift(a).sqrt(),
    "log": lambda a: lift(a).log(),
    "log10": lambda a: lift(a).log10(),
    "exp": lambda a: lift(a).exp(),
    "arccos": lambda a: lift(a).arccos(),
    "sign": _sign,
    "maximum": _max2,
    "minimum": _min2,
    "less": lambda a, b: _py(a) < _py(b),
    "greater": lambda a, b: _py(a) > _py(b),
    "less_equal": lambda a, b: _py(a) <= _py(b),
    "greater_equal": lambda a, b: _py(a) >= _py(b),
    "equal": lambda a, b: _py(a) == _py(b),
    "not_equal": lambda a, b: _py(a) != _py(b),
    "isnan": _isnan,
    "isfinite": lambda a: SB(z3.Not(lift(a).nan)),
    "isinf": lambda a: SB(FALSE),
    "logical_and": lambda a, b: SB(z3.And(_b(a), _b(b))),
    "logical_or": lambda a, b: SB(z3.Or(_b(a), _b(b))),
    "logical_not": _logical_not,
    "bitwise_and": lambda a, b: SB(z3.And(_b(a), _b(b))),
    "bitwise_or": lambda a, b: SB(z3.Or(_b(a), _b(b))),
    "invert": lambda a: SB(z3.Not(_b(a))),
    "real": lambda a: a.real if hasattr(a, "real") else a,
    "imag": lambda a: a.imag if hasattr(a, "imag") else 0,
    "conjugate": lambda a: a.conjugate() if hasattr(a, "conjugate") else a,
}


def _fold(name, vals):
    vals = list(vals)
    if not vals:
        if name == "add":
            return 0
        if name == "multiply":
            return 1
        if name == "logical_or":
            return False
        if name == "logical_and":
            return True
        raise ValueError("zero-size reduction")
    r = vals[0]
    for v in vals[1:]:
        r = UF[name](r, v)
    return r


def _reduce(name, arr, axis, keepdims=False):
    arr = np.asarray(arr, dtype=object)
    if name in ("logical_or", "logical_and") and arr.ndim >= 1:
        pass
    if axis is None:
        r = _fold(name, arr.ravel())
        if keepdims:
            return SymArray(np.array(r, dtype=object).reshape((1,) * arr.ndim))
        return r
    if isinstance(axis, tuple):
        raise ShimGap("tuple axis reduce")
    axis = axis % arr.ndim
    moved = np.moveaxis(arr, axis, -1)
    out = np.empty(moved.shape[:-1], dtype=object)
    for ix in np.ndindex(out.shape):
        out[ix] = _fold(name, moved[ix])
    if keepdims:
        out = np.expand_dims(out, axis)
    if out.ndim == 0:
        return out[()]
    return SymArray(out)


def _obj(x):
    if isinstance(x, np.ndarray):
        return np.asarray(x, dtype=object).view(np.ndarray)
    if isinstance(x, (list, tuple)):
        return np.array(plain(x), dtype=object)
    if is_sym(x):
        a = np.empty((), dtype=object)   # 0-d cell: keeps scalar hooks out of frompyfunc's dispatch
        a[()] = x
        return a
    return x


def apply_ufunc(ufunc, method, inputs, kw):
    name = ufunc.__name__
    out = kw.pop("out", None)
    if out is not None and not (isinstance(out, tuple) and all(o is None for o in out)):
        # in-place forms (a *= b): compute then store
        res = apply_ufunc(ufunc, method, inputs, kw)
        tgt = out[0] if isinstance(out, tuple) else out
        tgt[...] = res
        return tgt
    if method == "reduce":
        axis = kw.get("axis", 0)
        if name not in UF:
            raise ShimGap("reduce " + name)
        return _reduce(name, inputs[0], axis, kw.get("keepdims", False))
    if method == "outer":
        a, b = (np.asarray(_obj(i), dtype=object) for i in inputs)
        f = np.frompyfunc(UF[name], 2, 1)
        return SymArray(f(a.reshape(a.shape + (1,) * b.ndim), b))
    if method != "__call__":
        raise ShimGap(f"ufunc method {method} of {name}")
    if name == "matmul":
        a, b = (np.asarray(_obj(i), dtype=object) for i in inputs)
        return SymArray(_matmul(a, b))
    if name not in UF:
        raise ShimGap("ufunc " + name)
    ins = [_obj(i) for i in inputs]
    f = np.frompyfunc(UF[name], ufunc.nin, 1)
    r = f(*ins)
    if isinstance(r, np.ndarray):
        if r.ndim == 0:
            return r[()]
        return SymArray(r)
    return r


def _matmul(a, b):
    if a.ndim == 1 and b.ndim == 1:
        return np.array(_fold("add", [x * y for x, y in zip(a, b)]), dtype=object)[()]
    if a.ndim <= 2 and b.ndim <= 2:
        return np.dot(a, b)
    # stacked matmul: broadcast over leading dims
    if a.ndim == 1:
        a = a[None, :]
        sq_a = True
    else:
        sq_a = False
    if b.ndim == 1:
        b = b[:, None]
        sq_b = True
    else:
        sq_b = False
    lead = np.broadcast_shapes(a.shape[:-2], b.shape[:-2])
    a2 = np.broadcast_to(a, lead + a.shape[-2:])
    b2 = np.broadcast_to(b, lead + b.shape[-2:])
    out = np.empty(lead + (a.shape[-2], b.shape[-1]), dtype=object)
    for ix in np.ndindex(lead):
        out[ix] = np.dot(a2[ix], b2[ix])
    if sq_a:
        out = out[..., 0, :]
    if sq_b:
        out = out[..., 0]
    return out


def scalar_ufunc(ufunc, method, *inputs, **kw):
    return apply_ufunc(ufunc, method, inputs, kw)


def dispatch_function(func, args, kwargs):
    if func in HANDLED:
        return HANDLED[func](*args, **kwargs)
    def strip(x):
        if is_sym(x):
            return _obj(x)           # 0-d object cell: stops NumPy from dispatching back to the scalar's hook
        if isinstance(x, SymArray):
            return x.view(np.ndarray)
        if isinstance(x, (list, tuple)):
            return type(x)(strip(y) for y in x)
        return x
    try:
        r = func(*strip(args), **{k: strip(v) for k, v in kwargs.items()})
    except (TypeError, AttributeError) as ex:
        # NumPy's own implementation choking on object cells is a modelling gap, not behaviour of the code under analysis
        # (which may well swallow it in a broad `except Exception`)
        raise ShimGap(f"np.{getattr(func, '__name__', func)} on a symbolic array is not modelled: {type(ex).__name__}: {ex}")
    return wrap(r)


class SymArray(np.ndarray):
    """ndarray subclass, dtype=object; structure is NumPy's own, scalars are symbolic"""

    def __new__(cls, a):
        return np.asarray(a, dtype=object).view(cls)

    def astype(self, dtype, **kw):
        if dtype in (int, "int", np.int64, np.int32):
            f = np.frompyfunc(lambda x: lift(x) if is_sym(x) else int(x), 1, 1)
            return SymArray(f(self.view(np.ndarray)))
        if dtype in (bool, np.bool_, "bool"):
            f = np.frompyfunc(lambda x: SB(tob(x)) if is_sym(x) else bool(x), 1, 1)
            return SymArray(f(self.view(np.ndarray)))
        return np.array(self.view(np.ndarray), dtype=object).view(SymArray)

    def __array_ufunc__(self, ufunc, method, *inputs, **kw):
        return apply_ufunc(ufunc, method, inputs, kw)

    def __array_function__(self, func, types, args, kwargs):
        return dispatch_function(func, args, kwargs)

    def __getitem__(self, key):
        key = _concretize_key(key)
        r = np.ndarray.__getitem__(self, key)
        if isinstance(r, (SV, SC)):
            return r.copy()   # fresh wrapper per access, like NumPy scalars
        return r

    def __setitem__(self, key, val):
        if isinstance(key, np.ndarray) and key.dtype == object and key.shape == self.shape and key.size and any(
            isinstance(k, SB) for k in key.view(np.ndarray).ravel()
        ):
            flat = self.view(np.ndarray)
            kk = key.view(np.ndarray)
            if isinstance(val, np.ndarray):
                raise ShimGap("masked assignment of an array under a symbolic mask")
            for ix in np.ndindex(self.shape):
                k = kk[ix]
                if isinstance(k, SB):
                    flat[ix] = ite(k.b, val, flat[ix])
                elif k:
                    flat[ix] = val
            return
        key = _concretize_key(key)
        np.ndarray.__setitem__(self, key, plain(val) if isinstance(val, SymArray) else val)

    # reductions as methods
    def sum(self, axis=None, **kw):
        return _reduce("add", self, axis, kw.get("keepdims", False))

    def any(self, axis=None, **kw):
        return _reduce("logical_or", self, axis)

    def all(self, axis=None, **kw):
        return _reduce("logical_and", self, axis)

    def mean(self, axis=None, **kw):
        return _mean(self, axis=axis)

    def conj(self):
        return np.conjugate(self)

    conjugate = conj

    @property
    def real(self):
        return apply_ufunc(np.real, "__call__", (self,), {}) if False else SymArray(
            np.frompyfunc(UF["real"], 1, 1)(self.view(np.ndarray)))

    @property
    def imag(self):
        return SymArray(np.frompyfunc(UF["imag"], 1, 1)(self.view(np.ndarray)))

    def max(self, axis=None, **kw):
        return _amax(self, axis=axis)

    def min(self, axis=None, **kw):
        return _amin(self, axis=axis)

    def argmax(self, axis=None, **kw):
        return _argmax(self, axis=axis)

    def argmin(self, axis=None, **kw):
        return _argmin(self, axis=axis)

    def dot(self, o):
        return SymArray(np.dot(self.view(np.ndarray), plain(o) if isinstance(o, SymArray) else o))

    def tolist(self):
        return self.view(np.ndarray).tolist()


def _concretize_key(key):
    """boolean masks with symbolic cells used for *selection* fork per cell"""
    if isinstance(key, np.ndarray) and key.dtype == object and key.size and any(
        isinstance(k, SB) for k in key.view(np.ndarray).ravel()
    ):
        return np.vectorize(bool, otypes=[bool])(key.view(np.ndarray))
    if isinstance(key, tuple):
        return tuple(_concretize_key(k) for k in key)
    return key


# ------------------------------------------------------------------------------ lifted functions
@implements(np.where)
def _where(c, a=None, b=None):
    if a is None:
        c = np.asarray(c)
        if c.dtype == object:
            c = np.vectorize(bool, otypes=[bool])(np.asarray(c, dtype=object).view(np.ndarray))
        return np.nonzero(c)
    c = _obj(c)
    f = np.frompyfunc(lambda cc, x, y: ite(_b(cc), x, y) if is_sym(cc) else (x if cc else y), 3, 1)
    r = f(c, _obj(a), _obj(b))
    return SymArray(r) if isinstance(r, np.ndarray) else r


def fork_where(c, a=None, b=None):
    """np.where that forks on every symbolic condition cell instead of building If-terms (keeps later terms simple
    at the price of paths); selectable per harness through NPProxy(where=fork_where)"""
    if a is None:
        return _where(c)
    c2, a2, b2 = np.broadcast_arrays(np.asarray(_obj(c), dtype=object), np.asarray(_obj(a), dtype=object), np.asarray(_obj(b), dtype=object))
    out = np.empty(c2.shape, dtype=object)
    for ix in np.ndindex(c2.shape):
        out[ix] = a2[ix] if bool(c2[ix]) else b2[ix]
    return SymArray(out) if out.ndim else out[()]


def _along(fn, a, axis):
    a = np.asarray(_obj(a), dtype=object)
    if axis is None:
        return fn(list(a.ravel()))
    axis = axis % a.ndim
    moved = np.moveaxis(a, axis, -1)
    out = np.empty(moved.shape[:-1], dtype=object)
    for ix in np.ndindex(out.shape):
        out[ix] = fn(list(moved[ix]))
    return out


def _first_best(vals, better, nan_first=True, skip_nan=False):
    vals = [lift(v) for v in vals]
    if skip_nan:
        keep = [i for i, v in enumerate(vals) if not bool(v.isnan())]
        if not keep:
            raise ValueError("All-NaN slice encountered")
    else:
        for i, v in enumerate(vals):
            if bool(v.isnan()):
                return i
        keep = list(range(len(vals)))
    b = keep[0]
    for i in keep[1:]:
        if bool(better(vals[i], vals[b])):
            b = i
    return b


def _intarr(out):
    if isinstance(out, np.ndarray):
        return out.astype(np.intp)
    return out


@implements(np.argmin)
def _argmin(a, axis=None, **kw):
    return _intarr(_along(lambda v: _first_best(v, lambda x, y: x < y), a, axis))


@implements(np.argmax)
def _argmax(a, axis=None, **kw):
    return _intarr(_along(lambda v: _first_best(v, lambda x, y: x > y), a, axis))


@implements(np.nanargmin)
def _nanargmin(a, axis=None, **kw):
    return _intarr(_along(lambda v: _first_best(v, lambda x, y: x < y, skip_nan=True), a, axis))


@implements(np.nanargmax)
def _nanargmax(a, axis=None, **kw):
    return _intarr(_along(lambda v: _first_best(v, lambda x, y: x > y, skip_nan=True), a, axis))


def _pick(fn):
    def g(vals):
        return vals[fn(vals)]
    return g


def _wrapres(r):
    if isinstance(r, np.ndarray):
        return SymArray(r) if r.ndim else r[()]
    return r


@implements(np.amax, np.max)
def _amax(a, axis=None, **kw):
    return _wrapres(_along(lambda v: _fold("maximum", v), a, axis))


@implements(np.amin, np.min)
def _amin(a, axis=None, **kw):
    return _wrapres(_along(lambda v: _fold("minimum", v), a, axis))


@implements(np.nanmax)
def _nanmax(a, axis=None, **kw):
    return _wrapres(_along(_pick(lambda v: _first_best(v, lambda x, y: x > y, skip_nan=True)), a, axis))


@implements(np.nanmin)
def _nanmin(a, axis=None, **kw):
    return _wrapres(_along(_pick(lambda v: _first_best(v, lambda x, y: x < y, skip_nan=True)), a, axis))


def _stable_argsort(vals):
    vals = [lift(v) for v in vals]
    nanf = [bool(v.isnan()) for v in vals]
    idx = [i for i in range(len(vals)) if not nanf[i]]
    for i in range(1, len(idx)):
        j = i
        while j > 0 and bool(vals[idx[j]] < vals[idx[j - 1]]):
            idx[j], idx[j - 1] = idx[j - 1], idx[j]
            j -= 1
    return idx + [i for i in range(len(vals)) if nanf[i]]


@implements(np.argsort)
def _argsort(a, axis=-1, kind=None, **kw):
    a = np.asarray(_obj(a), dtype=object)
    if a.ndim == 0:
        return np.array([0], dtype=np.intp)
    if axis is None:
        a = a.ravel()
        axis = -1
    if a.ndim == 1:
        return np.array(_stable_argsort(list(a)), dtype=np.intp)
    axis = axis % a.ndim
    moved = np.moveaxis(a, axis, -1)
    out = np.empty(moved.shape, dtype=np.intp)
    for ix in np.ndindex(moved.shape[:-1]):
        out[ix] = _stable_argsort(list(moved[ix]))
    return np.moveaxis(out, -1, axis)


@implements(np.sort)
def _sort(a, axis=-1, **kw):
    a = np.asarray(_obj(a), dtype=object)
    if a.ndim != 1:
        raise ShimGap("sort ndim>1")
    idx = _stable_argsort(list(a))
    return SymArray(a[idx])


@implements(np.isclose)
def _isclose(a, b, rtol=1e-5, atol=1e-8, equal_nan=False):
    f = np.frompyfunc(lambda x, y: abs(lift(x) - y) <= (lift(atol) + lift(rtol) * abs(lift(y))), 2, 1)
    r = f(_obj(a), _obj(b))
    return SymArray(r) if isinstance(r, np.ndarray) else r


@implements(np.allclose)
def _allclose(a, b, rtol=1e-5, atol=1e-8, equal_nan=False):
    r = _isclose(a, b, rtol, atol)
    if isinstance(r, np.ndarray):
        return bool(_reduce("logical_and", r, None))
    return bool(r)


@implements(np.unique)
def _unique(a, **kw):
    if kw:
        raise ShimGap("unique with options")
    vals = [lift(v) for v in np.asarray(_obj(a), dtype=object).ravel()]
    nn = [v for v in vals if not bool(v.isnan())]
    nanc = len(vals) - len(nn)
    out = []
    for v in nn:
        pos = 0
        dup = False
        for w in out:
            if bool(v == w):
                dup = True
                break
            if bool(w < v):
                pos += 1
        if not dup:
            out.insert(pos, v)
    if nanc:
        out.append(SV(z3.RealVal(0), TRUE))
    return SymArray(out)


@implements(np.sum)
def _sum(a, axis=None, **kw):
    if isinstance(a, (list, tuple)) and not has_sym(a):
        return np.sum(a, axis=axis)
    return _reduce("add", _obj(a), axis, kw.get("keepdims", False))


@implements(np.nansum)
def _nansum(a, axis=None, **kw):
    a = np.asarray(_obj(a), dtype=object)
    f = np.frompyfunc(lambda x: ite(lift(x).isnan(), 0, x), 1, 1)
    return _reduce("add", f(a), axis)


@implements(np.mean)
def _mean(a, axis=None, **kw):
    a = np.asarray(_obj(a), dtype=object)
    n = a.size if axis is None else a.shape[axis]
    s = _reduce("add", a, axis, kw.get("keepdims", False))
    return s / n


@implements(np.var)
def _var(a, axis=None, ddof=0, **kw):
    a = np.asarray(_obj(a), dtype=object)
    n = a.size if axis is None else a.shape[axis]
    m = _reduce("add", a, axis, True) / n
    d = SymArray(a) - m
    f = np.frompyfunc(lambda x: (toc(x).abs2() if isinstance(x, SC) else lift(x) * lift(x)), 1, 1)
    return _reduce("add", f(np.asarray(d, dtype=object).view(np.ndarray)), axis) / (n - ddof)


@implements(np.std)
def _std(a, axis=None, ddof=0, **kw):
    v = _var(a, axis=axis, ddof=ddof)
    return np.sqrt(v)


@implements(np.cov)
def _cov(m, y=None, rowvar=True, bias=False, ddof=None, **kw):
    """documented definition: rows are variables; C = (X - mean)(X - mean)^H / (N - ddof)"""
    if kw:
        raise ShimGap("cov with weights")
    X = np.atleast_2d(np.asarray(_obj(m), dtype=object))
    if not rowvar and X.shape[0] != 1:
        X = X.T
    if y is not None:
        Y = np.atleast_2d(np.asarray(_obj(y), dtype=object))
        if not rowvar and Y.shape[0] != 1:
            Y = Y.T
        X = np.concatenate((X, Y), axis=0)
    n = X.shape[1]
    if ddof is None:
        ddof = 0 if bias else 1
    rows = []
    for r in range(X.shape[0]):
        mu = _fold("add", X[r]) / n
        rows.append([x - mu for x in X[r]])
    C = np.empty((len(rows), len(rows)), dtype=object)
    for a in range(len(rows)):
        for b in range(len(rows)):
            C[a, b] = _fold("add", [u * (v.conjugate() if hasattr(v, "conjugate") else v) for u, v in zip(rows[a], rows[b])]) / (n - ddof)
    return SymArray(C) if C.shape != (1, 1) else C[0, 0]


@implements(np.any)
def _any(a, axis=None, **kw):
    return _reduce("logical_or", _obj(a), axis)


@implements(np.all)
def _all(a, axis=None, **kw):
    return _reduce("logical_and", _obj(a), axis)


@implements(np.dot)
def _dot(a, b, out=None):
    return _wrapres(np.dot(np.asarray(_obj(a), dtype=object), np.asarray(_obj(b), dtype=object)))


@implements(np.linalg.norm)
def _norm(x, ord=None, axis=None, keepdims=False):  # noqa: A002
    if ord not in (None, 2, "fro") or axis is not None or keepdims:
        raise ShimGap("linalg.norm with options")
    x = np.asarray(_obj(x), dtype=object).ravel()
    s2 = _fold("add", [toc(v).abs2() for v in x])
    return lift(s2).sqrt()


@implements(np.vdot)
def _vdot(a, b):
    a = np.asarray(_obj(a), dtype=object).ravel()
    b = np.asarray(_obj(b), dtype=object).ravel()
    return _fold("add", [(x.conjugate() if hasattr(x, "conjugate") else x) * y for x, y in zip(a, b)])


@implements(np.array_equal)
def _array_equal(a, b, **kw):
    a = np.asarray(_obj(a), dtype=object)
    b = np.asarray(_obj(b), dtype=object)
    if a.shape != b.shape:
        return False
    f = np.frompyfunc(lambda x, y: lift(x) == y, 2, 1)
    return bool(_reduce("logical_and", f(a, b), None))


@implements(np.nan_to_num)
def _nan_to_num(a, copy=True, nan=0.0, **kw):
    f = np.frompyfunc(lambda x: ite(lift(x).isnan(), nan, x), 1, 1)
    out = f(np.asarray(_obj(a), dtype=object))
    if not copy and isinstance(a, np.ndarray) and a.dtype == object:
        # copy=False writes into the argument's buffer (also through views)
        np.ndarray.__setitem__(a.view(np.ndarray), Ellipsis, out)
        return a
    return SymArray(out)


@implements(np.count_nonzero)
def _count_nonzero(a, axis=None, **kw):
    a = np.asarray(_obj(a), dtype=object)
    f = np.frompyfunc(lambda x: lift(SB(tob(x))) if is_sym(x) else int(bool(x)), 1, 1)
    return _reduce("add", f(a), axis)


@implements(np.iscomplexobj)
def _iscomplexobj(a):
    return any(isinstance(x, SC) for x in np.asarray(_obj(a), dtype=object).ravel())


@implements(np.real)
def _real(a):
    return wrap(np.frompyfunc(UF["real"], 1, 1)(_obj(a)))


@implements(np.imag)
def _imag(a):
    return wrap(np.frompyfunc(UF["imag"], 1, 1)(_obj(a)))


# ------------------------------------------------------------------------------ builders
def fresh(name, shape=(), nan=False, complex_=False, nn=False):
    """nn=True declares the value non-negative to the scalar layer (the harness must also assume it)"""
    def mk(nm):
        flag = z3.Bool(nm + "_nan") if nan else None
        if complex_:
            return SC(z3.Real(nm + "r"), z3.Real(nm + "i"), flag)
        return SV(z3.Real(nm), flag, nn=nn)
    if shape == ():
        return mk(name)
    out = np.empty(shape, dtype=object)
    for ix in itertools.product(*map(range, shape)):
        out[ix] = mk(name + "_" + "_".join(map(str, ix)))
    return out.view(SymArray)


def const_array(a):
    """concrete numeric array -> SymArray with exact rational cells"""
    a = np.asarray(a)
    out = np.empty(a.shape, dtype=object)
    for ix in np.ndindex(a.shape):
        out[ix] = lift(a[ix])
    return out.view(SymArray)


# ------------------------------------------------------------------------------ np proxy
class NPProxy:
    """stands in for the `np` global of a twin: allocators return object arrays; lifted functions are
    routed through their handlers whenever an argument contains a symbolic scalar (also in lists)"""

    nan = NAN

    def __init__(self, real=np, linalg=None, fft=None, **extra):
        """linalg / fft: stub namespaces replacing np.linalg / np.fft in the twin; extra: attribute overrides"""
        object.__setattr__(self, "_np", real)
        object.__setattr__(self, "linalg", linalg if linalg is not None else real.linalg)
        object.__setattr__(self, "fft", fft if fft is not None else real.fft)
        for k, v in extra.items():
            object.__setattr__(self, k, v)

    def __getattr__(self, k):
        f = getattr(np, k)
        if k in ("finfo", "iinfo"):
            # symbolic arrays stand for float64 data
            return lambda dt=np.float64: f(np.float64 if np.dtype(dt) == np.dtype(object) else dt)
        if callable(f) and not isinstance(f, type):
            if f in HANDLED:
                h = HANDLED[f]

                def w(*a, **kw):
                    if any(has_sym(x) for x in a) or any(has_sym(x) for x in kw.values()):
                        return h(*a, **kw)
                    return f(*a, **kw)
                return w
            if isinstance(f, np.ufunc):
                def w(*a, **kw):
                    if any(has_sym(x) for x in a):
                        return apply_ufunc(f, "__call__", a, kw)
                    return f(*a, **kw)
                w.reduce = lambda a, axis=0, **kw: (apply_ufunc(f, "reduce", (a,), dict(axis=axis, **kw))
                                                    if has_sym(a) else f.reduce(a, axis=axis, **kw))
                w.outer = lambda a, b, **kw: (apply_ufunc(f, "outer", (a, b), kw)
                                              if has_sym(a) or has_sym(b) else f.outer(a, b, **kw))
                return w
            if k in ("hstack", "vstack", "concatenate", "stack", "column_stack", "dstack", "append", "insert",
                     "delete", "reshape", "transpose", "moveaxis", "expand_dims", "repeat", "tile", "diag",
                     "kron", "squeeze", "flip", "roll", "atleast_2d", "atleast_1d", "swapaxes", "ravel", "take",
                     "tril", "triu", "trace", "outer", "cumsum", "diff", "copy", "asarray", "einsum",
                     "broadcast_to", "split", "array_split", "block"):
                def w(*a, **kw):
                    if any(has_sym(x) for x in a):
                        a2 = [_obj(x) if isinstance(x, (list, tuple)) and k in ("asarray", "copy") else plain(x) for x in a]
                        return wrap(f(*a2, **{kk: plain(v) for kk, v in kw.items()}))
                    return f(*a, **kw)
                return w
        return f

    # allocators
    def _alloc(self, shape, fill, dtype):
        if dtype in (bool, int, "int", "bool", np.bool_, np.int64, np.intp):
            return np.full(shape, fill, dtype=dtype)
        a = np.empty(shape, dtype=object)
        a.fill(fill)
        return a.view(SymArray)

    def zeros(self, shape, dtype=None, **kw):
        return self._alloc(shape, 0.0, dtype)

    def ones(self, shape, dtype=None, **kw):
        return self._alloc(shape, 1.0, dtype)

    def empty(self, shape, dtype=None, **kw):
        return self._alloc(shape, 0.0, dtype)

    def full(self, shape, v, dtype=None, **kw):
        return self._alloc(shape, v, dtype if not is_sym(v) else None)

    def zeros_like(self, a, dtype=None, **kw):
        return self.zeros(np.shape(a), dtype)

    def ones_like(self, a, dtype=None, **kw):
        return self.ones(np.shape(a), dtype)

    def empty_like(self, a, dtype=None, **kw):
        return self.zeros(np.shape(a), dtype)

    def full_like(self, a, v, dtype=None, **kw):
        return self.full(np.shape(a), v, dtype)

    def eye(self, n, m=None, k=0, dtype=None, **kw):
        return const_array(np.eye(n, m, k))

    def identity(self, n, dtype=None):
        return const_array(np.eye(n))

    def array(self, x, dtype=None, **kw):
        if has_sym(x):
            return np.array(plain(x), dtype=object).view(SymArray)
        return np.array(x, dtype=dtype, **kw)

    def asarray(self, x, dtype=None, **kw):
        if isinstance(x, SymArray):
            return x
        if has_sym(x):
            return self.array(x)
        return np.asarray(x, dtype=dtype, **kw)


NP = NPProxy()
