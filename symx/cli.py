"""./check entry point"""
import argparse
import os
import sys

from . import harness


def main():
    ap = argparse.ArgumentParser()
    ap.add_argument("prop")
    ap.add_argument("--tier", default=os.environ.get("VERIF_TIER", "quick"), choices=["quick", "thorough"])
    ap.add_argument("--only", default=None)
    ap.add_argument("--replay", default=None)
    ap.add_argument("--procs", type=int, default=None)
    a = ap.parse_args()
    modname = "props." + a.prop.lower()
    if a.replay:
        sys.exit(harness.replay_file(modname, a.replay))
    seed = int(os.environ.get("VERIF_SEED", "0") or 0)
    only = a.only.split(",") if a.only else None
    sys.exit(harness.run_property(modname, a.tier, seed=seed, only=only, procs=a.procs))


if __name__ == "__main__":
    main()
