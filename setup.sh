#!/bin/sh
# Build the overlay venv used by every check: /venv's site-packages (numpy, scipy, pandas, pyOMA2 deps)
# plus z3-solver and cvc5 from the offline wheelhouse. Idempotent.
set -e
HERE="$(cd "$(dirname "$0")" && pwd)"
V="$HERE/.venv"
if [ ! -x "$V/bin/python" ] || ! "$V/bin/python" -c "import z3, numpy" >/dev/null 2>&1; then
  rm -rf "$V"
  /venv/bin/python -m venv "$V"
  SP="$V/lib/python3.12/site-packages"
  echo "import site; site.addsitedir('/venv/lib/python3.12/site-packages')" > "$SP/_base.pth"
  PIP_NO_INDEX=1 "$V/bin/pip" install -q --no-index --find-links /opt/veriftools/wheels z3-solver cvc5 >/dev/null 2>&1 || \
  PIP_NO_INDEX=1 "$V/bin/pip" install -q --no-index --find-links /opt/veriftools/wheels z3-solver
fi
"$V/bin/python" -c "import z3, numpy; print('venv ok', z3.get_version_string(), numpy.__version__)"
# translator validation (DESIGN 2.6): the symbolic NumPy layer against NumPy and against real pyOMA2 helpers
if OUT=$(PYTHONPATH="$HERE:/repo/src" TQDM_DISABLE=1 "$V/bin/python" -W ignore -m symx.selftest 2>&1); then
  echo "$OUT" | tail -1
else
  echo "$OUT" | grep -E "^FAIL|selftest" ; echo "HARNESS-ERROR shim self-test failed"; exit 3
fi
